# Per-property configuration of bin/check: flavours, worker counts, time budgets, evidence texts.
REAL = ("real: whole ChaiScript (parser, optimizer, evaluator, dispatch, stdlib, prelude), real std::shared_mutex / "
        "std::recursive_mutex under the H1 wrappers, real OS threads, real files in a private directory. "
        "simulated: the choice of which thread runs at every lock acquire/release, operation boundary, callback and file call "
        "(seeded scheduler); read()/fopen() pass through a fault layer; callbacks throw on command. "
        "binary extension modules (C15): a real shared object built per flavour, loaded with dlopen through load_module. "
        "not exercised: script-level load_module, script async/future, CHAISCRIPT_NO_THREADS builds.")

COMMON_ASSUME = [
    "sampling, not proof: a clean batch is evidence over the seeds, schedules and fault points that were run",
    "context switches happen only at synchronisation operations, operation boundaries, harness callbacks, file calls and (C04, hook H4) "
    "accesses of the shared lookup hints; "
    "behaviours needing a switch between two plain memory accesses are covered through the TSan happens-before oracle only",
    "the harness (sim/core, sim/worlds) and clang 14 / gcc 12 sanitizer runtimes are trusted",
]


def two(q_budget, t_budget, flavours_q, flavours_t):
    return {
        "quick": {"flavours": {f: dict(v, budget_s=v.get("budget_s", q_budget)) for f, v in flavours_q.items()}},
        "thorough": {"flavours": {f: dict(v, budget_s=v.get("budget_s", t_budget)) for f, v in flavours_t.items()}},
    }


PROPS = {
    "C13": dict(
        level="exploration",
        rule=("one run = one engine + T actor threads executing a generated mix of registry/eval/use operations under a seeded "
              "schedule (random-switch or PCT, swarm-varied). distinct = distinct hash of (operation-kind/actor sequence, sequence of "
              "(next actor, site kind) at every context switch); non-trivial = at least one context switch happened. "
              "Oracles: TSan happens-before over the serialised execution (scheduler hidden from TSan), ASan, per-op expected results, "
              "thread-local isolation, per-key linearizability of registry ops, final inventory, use() exactly once (a file that throws half-way: "
              "evaluated again by every call, its exception delivered), deadlock/step cap."),
        real_vs_stub=REAL,
        assumptions=COMMON_ASSUME + ["TSan keeps a bounded per-word access history (false negatives possible for very old accesses, never false positives)"],
        expected_probes=["probe_actor_blocked_on_mutex", "probe_lin_history_with_overlapping_ops", "probe_multiple_use_calls", "probe_multiple_failing_use_calls",
                         "probe_engine_created_by_a_thread_that_ended", "probe_callback_invoked_by_another_thread_than_its_maker",
                         "probe_multiple_imports_of_one_namespace", "probe_conversion_types_known_in_advance"],
        **two(40, 420,
              {"tsan": {"workers": 8}, "asan": {"workers": 8}},
              {"tsan": {"workers": 8}, "asan": {"workers": 6}, "plain": {"workers": 2}}),
    ),
    "C14": dict(
        level="exploration",
        rule=("one run = a history of create / eval / destroy operations over 3 arena slots (placement new: the simulator decides address "
              "reuse) and 2 heap slots, performed by 1..4 long-lived actor threads; same-slot operations keep plan order, different slots "
              "interleave under the seeded scheduler. distinct = hash of (op kind, actor, slot) sequence x interleaving; non-trivial = at least "
              "one engine destroyed or one context switch. Oracle: per-generation dictionary model (locals per actor, functions, globals, "
              "conversions, used files, the embedder's long-lived extension Module, attributes attached to computed values); every value encodes its "
              "engine generation; up to three further engines are created, used and destroyed inside another engine's use(); syntax trees parsed once "
              "by the embedder are evaluated in whichever engine an operation names and must answer from that engine."),
        real_vs_stub=REAL,
        assumptions=COMMON_ASSUME + ["creation/destruction of an engine is ordered with its uses by the user (plan order per slot)"],
        expected_probes=["probe_destroyed_by_other_thread_than_user", "fault_engine_recreate_same_address", "probe_engine_used_nested_inside_use_of_another", "probe_engine_built_from_extended_library",
                         "probe_long_lived_module_added", "probe_several_engines_nested_inside_use_of_another", "probe_attribute_attached_to_computed_value",
                         "probe_shared_tree_evaluated"],
        **two(40, 420,
              {"asan": {"workers": 8}, "plain": {"workers": 4}, "tsan": {"workers": 4}},
              {"asan": {"workers": 8}, "plain": {"workers": 4}, "tsan": {"workers": 4}}),
    ),
    "C09": dict(
        level="fault_enumeration",
        rule=("one plan = one generated program; it is executed fault-free to record every callback invocation (site, occurrence) and script "
              "throw / early-return site, then EVERY recorded crash point x every exception kind of the plan (all 10 kinds in thorough, a seeded subset of 4 in "
              "quick) is executed on a fresh engine (seeded sample of 60/120 points x kinds only when a program has more). evaluations = "
              "individual executions; distinct non-trivial = executions in which the injected fault actually fired (each is a distinct "
              "(program, site, occurrence, kind) tuple). Oracle: H3 stack shape after == before for every eval, get_locals == completed "
              "top-level declarations, fixed follow-up script == pristine answer. The host also re-enters the engine from inside callbacks (ordinary calls and a "
              "frame-less operator== dispatched by switch): the inner eval must leave the shape it was entered with; further engines are built / an older "
              "engine is destroyed on the evaluating thread in mid-evaluation."),
        real_vs_stub=REAL,
        assumptions=COMMON_ASSUME + ["crash points are exhaustive per generated program, programs themselves are sampled",
                                     "Conversion_Saves::saves.size() is deliberately not part of the compared shape (a converted temporary legitimately stays until the next call)"],
        expected_probes=["probe_exception_left_eval", "probe_fault_absorbed_inside_script", "fault_script_throw", "fault_script_return", "on_worker_thread",
                         "probe_reentrant_eval_from_callback", "probe_reentrant_eval_failed_and_was_handled_or_passed_on", "probe_other_engine_built_or_destroyed_mid_evaluation"],
        **two(40, 420,
              {"plain": {"workers": 10}, "asan": {"workers": 6}},
              {"plain": {"workers": 10}, "asan": {"workers": 6}}),
    ),
    "C19": dict(
        level="exploration",
        rule=("fixed matrix, executed completely in both tiers: file length 0..8 x {no BOM, BOM, partial BOM} x {no fault, 1-byte short reads, "
              "EINTR} x {eval_file, use} = 162 cases; then seeded random histories of <=12/16 operations (write/delete files, eval_file and "
              "use from C++ and from script, get_state / set_state between them, directories carrying the name of a script) over <=4 file names in <=3 directories with permuted search paths, bodies with BOM / double BOM / "
              "CRLF / shebang / trailing NULs / nested and cyclic use() / syntax errors, with per-operation short reads, EINTR and failing opens "
              "injected by the simulated file layer. distinct = hash of the operation list and search path; non-trivial = at least one file "
              "API operation. Oracle: twin engine evaluating the same bytes with eval(), driven by a model of search path + used-file set."),
        real_vs_stub=REAL + " file layer: fopen/fopen64/read of files under the run directory are interposed (faults); the files themselves are real.",
        assumptions=COMMON_ASSUME + ["hard I/O errors (EIO, ENOSPC) are not injected: the property says nothing about them",
                                     "a used file counts as used from the start of its evaluation and stops counting if that evaluation fails (mirrors the engine after the fix)"],
        expected_probes=["fault_short_read", "fault_eintr", "fault_open_fail", "probe_file_shorter_than_bom", "probe_file_not_found", "probe_lookup_by_absolute_name", "fault_state_restored_between_file_operations", "probe_directory_named_like_a_script"],
        **two(30, 300,
              {"plain": {"workers": 8, "fixed": True}, "asan": {"workers": 8, "fixed": True}},
              {"plain": {"workers": 8, "fixed": True}, "asan": {"workers": 8, "fixed": True}}),
    ),
    "C10": dict(
        level="fault_enumeration",
        rule=("one plan = one generated nest of frames (def, lambda, method, bind, for_each/map callback, attribute-held function, C++ "
              "std::function trampoline, guarded overload behind a rejecting guard, typed overload behind overloads of other arity/type), wrappers (block, if, for, while, switch, ranged for) and <=3 try statements with 0..3 typed/untyped "
              "catch clauses and optional finally (catch/finally bodies may throw themselves). EVERY leaf of the nest in turn is the throw site "
              "x EVERY thrown kind (21: script int/string/bool/double/object/runtime_error, a C++ object obtained from a factory and thrown by script, failed dispatch, five C++ throws from a registered function, "
              "errors and throws inside nested script-level eval(string)/eval(parse(string)), a throwing guard, a call all guards reject) x {no "
              "exception_specification, <int,string,bool,double>} (specification only for script-thrown values), each on a fresh engine; the thrown "
              "C++ object additionally with its type NAME registered only between two calls of the nest as a function; each on a "
              "fresh engine. evaluations = individual executions; each (nest, site, kind, spec) is a distinct non-trivial case. Oracle: "
              "reference interpreter of try/catch/finally (DESIGN.md appendix B) predicting the exact t() trace and how the exception leaves eval."),
        real_vs_stub=REAL,
        assumptions=COMMON_ASSUME + ["throw sites and kinds are exhaustive per nest; nests are sampled",
                                     "C++ exceptions that cannot be boxed (user class, int) bypass script catch clauses, run finally blocks and leave with their own type, as the code documents",
                                     "the grammar has no guarded catch clauses (the 3-child branch of handle_exception is unreachable from parsed code)"],
        expected_probes=["probe_no_clause_matched", "probe_try_finally_without_catch", "probe_catch_block_threw", "probe_finally_ran_while_unwinding",
                         "probe_earlier_clause_skipped", "probe_unrepresentable_bypassed_clauses", "probe_caught_typed", "probe_caught_object_thrown_again",
                         "probe_caught_without_variable", "fault_throw_nested_eval_parse_error", "fault_throw_guard_throws", "probe_type_name_registered_between_two_calls"],
        **two(40, 420,
              {"plain": {"workers": 10}, "asan": {"workers": 6}},
              {"plain": {"workers": 10}, "asan": {"workers": 6}}),
    ),
    "C15": dict(
        level="exploration",
        rule=("one run = a history of <=30/40 operations {def function / overload, global, class, add type, add C++ function, use(file), "
              "load_module of a binary extension module, two-definition eval aborted by a throwing call, get_state, set_state(any earlier snapshot), "
              "local declaration} in plan order but "
              "executed by 1..3 actor threads, plus background evaluations that run concurrently with the chain (e.g. while set_state removes the "
              "function they call), interleaved by the seeded scheduler. distinct = hash of the operation list x interleaving; non-trivial = at "
              "least one set_state executed. Oracle: dictionary model with deep-copied snapshots, compared through ~50 probes after EVERY "
              "chain operation, each function and global also through long-lived script functions defined before the first snapshot."),
        real_vs_stub=REAL,
        assumptions=COMMON_ASSUME + ["one conversion-free loadable module is exercised; a module that registers a conversion is known finding C15-K1 and only replayed",
                                     "globals are created and read, not assigned again: a snapshot shares each global's value with the live engine, so a value assigned after the snapshot survives a restore - known finding C15-K2, replayed on every run",
                                     "user conversions are documented as not part of State and are not generated"],
        expected_probes=["fault_state_restore", "probe_restored_older_than_latest_snapshot", "probe_background_eval_overlapped_chain_op", "fault_throw_mid_eval", "probe_background_use_overlapped_chain_op", "probe_two_part_file_checked", "probe_background_type_registration", "probe_binary_module_loaded"],
        **two(40, 420,
              {"asan": {"workers": 8}, "plain": {"workers": 4}, "tsan": {"workers": 4}},
              {"asan": {"workers": 8}, "plain": {"workers": 4}, "tsan": {"workers": 4}}),
    ),
    "C04": dict(
        level="exploration",
        rule=("one run = <=4/5 generated functions (declarations, reads, conditional introduction of locals by eval()/eval_file() into the current "
              "scope, shadowing blocks, loops incl. the optimised form, ranged for, declarations in if conditions, try/catch/finally whose clause variable "
              "shadows an outer binding, recursion, calls of other functions, throwing callbacks) plus two capturing "
              "lambdas, called by 1..3 actors in a generated order with generated flags/recursion depths (direct, bind and attribute call styles for "
              "the lambdas); in half of the multi-actor plans every read/judgement/store of a lookup hint is a scheduling point (hook H4); every run is "
              "executed twice: lookup hints on, and ignored through hook H2. distinct = hash of (functions, history) x "
              "interleaving; non-trivial = at least one function call. Oracles: hints-on == hints-ignored (results and per-actor read traces) "
              "== the generator's own scope model."),
        real_vs_stub=REAL,
        assumptions=COMMON_ASSUME + ["every read prints a tag unique to one declaration, so a read identifies the binding it reached",
                                     "two constructs are excluded from generation because they are listed known findings (see known_findings.json): a read that is "
                                     "evaluated both before and after eval() introduced a local of that name in the same or an inner scope",
                                     "generated blocks start with a static declaration (a block without one is made scope-less by the optimizer: property C02's subject)"],
        expected_probes=["probe_body_evaluated_under_different_layouts", "fault_throw_in_priming_or_later_evaluation", "probe_name_read_after_it_became_a_global", "probe_function_table_reordered", "site_hint"],
        **two(40, 420,
              {"asan": {"workers": 8}, "plain": {"workers": 4}, "tsan": {"workers": 4}},
              {"asan": {"workers": 8}, "plain": {"workers": 4}, "tsan": {"workers": 4}}),
    ),
    "C08": dict(
        level="exploration",
        rule=("one run = a pool of <=4/6 generated functions whose bodies build and mutate locals from literals (strings, numbers, inline "
              "vectors/maps/ranges, nested containers, interpolated strings, references to locals, lambda literals with and without captures, literals "
              "and lambdas handed to parameter-modifying functions, a shared loop helper used with strings, vectors and a user-defined sequence) and "
              "return locals or literals; before the run the host evaluates some helpers / functions and only THEN adds late definitions (a sequence "
              "class, a typed overload); plus <=2 parsed "
              "trees evaluated through eval(AST_Node); every chosen call (function, argument, caller style: plain / copy-then-mutate / "
              "reference-then-mutate) is issued 3..6 times by 1..3 actors in shuffled order under the seeded scheduler; a callback inside a body "
              "throws on a chosen repetition. distinct = hash of (bodies, trees, history) x interleaving; non-trivial = at least 3 calls. "
              "Oracle: every call equals the same call on a pristine engine (one pristine engine per distinct call); AST dumps before/after."),
        real_vs_stub=REAL,
        assumptions=COMMON_ASSUME + ["AST_Node::to_string() shows node types, texts and locations, not the boxed constant values: a mutated literal is caught by the behavioural comparison, not by the dump"],
        expected_probes=["probe_third_or_later_evaluation_of_a_body", "fault_throw_inside_body", "ast_dumps_compared", "calls_returning_a_value",
                         "probe_helper_evaluated_before_late_definitions"],
        **two(40, 420,
              {"asan": {"workers": 8}, "plain": {"workers": 4}, "tsan": {"workers": 4}},
              {"asan": {"workers": 8}, "plain": {"workers": 4}, "tsan": {"workers": 4}}),
    ),
    "C11": dict(
        level="exploration",
        asan_options="detect_stack_use_after_return=1",
        rule=("one plan = one generated program of <=25 statements over an instrumented class (create, copy, clone, store in vector / map / "
              "attribute, capture, bind, pass by value / const& / & / * / shared_ptr, return, drop in nested scopes, converted temporaries, "
              "escapes through a C++-held shared_ptr, a Holder object, a global or the eval result, closures capturing a loop variable, loops left by "
              "break/continue, base->derived conversion, C++ functions returning references/pointers to their argument or calling back into script, "
              "attribute maps outliving their object, C++ -> script std::function calls with by-value arguments kept by the script). It is "
              "executed fault-free, with the script-level throw sites armed, and with EVERY instrumented constructor/copy call in turn throwing "
              "(seeded sample of 8 above 40 calls). evaluations = executions; distinct non-trivial = executions in which an injected constructor "
              "failure fired, plus programs. Oracle: instance registry (exactly-once destruction, canary on every access, live set == reachable "
              "set at quiescence, empty live set after engine destruction) + ASan with detect_stack_use_after_return=1."),
        real_vs_stub=REAL,
        assumptions=COMMON_ASSUME + ["evaluated on the thread that owns the engine only, as the property states",
                                     "script-made reference cycles and escaping closures with captures are not generated (the reachable set could not be computed)",
                                     "quiescence = after the top-level eval returned or threw and one further eval containing a function call flushed the conversion saves"],
        expected_probes=["fault_constructor_throw", "fault_script_throw", "probe_scope_left_by_exception", "fault_free_program_returned"],
        **two(40, 420,
              {"asan": {"workers": 10}, "plain": {"workers": 6}},
              {"asan": {"workers": 10}, "plain": {"workers": 6}}),
    ),
    "C06": dict(
        level="exploration",
        rule=("one run = a history of <=30/40 operations by 1..3 actors under the seeded scheduler: register an overload drawn from a catalogue "
              "of 48 signatures (value, const&, &, &&, *, const*, shared_ptr, shared_ptr<const>, std::function of one and of two parameters, arithmetic, bool, string, Base / "
              "Derived / Other classes, Boxed_Value / Boxed_Number catch-alls, arity 1-2) under one of <=3 names, register the Derived->Base "
              "conversion, call a name with 0-3 arguments drawn from 22 script values (const and non-const sources of every kind, lambdas and bind() "
              "results by open arity, an undefined value, a shared_ptr-held variable that a C++ function re-seats between calls), fetch a function "
              "object and call it later, boxed_cast a script value to one of 12 C++ types. distinct = hash of the history x interleaving; "
              "non-trivial = at least one C++ function entered or cast succeeded. Oracle: soundness rules over the entry log (see DESIGN.md)."),
        real_vs_stub=REAL,
        assumptions=COMMON_ASSUME + ["weakest fit of the claimed properties: the (overload set x argument tuple) space is an input space; simulation contributes registration order, "
                                     "registrations concurrent with calls, function objects fetched earlier, per-thread conversion caches",
                                     "const-ness of the argument is not part of the entry rules (property C07's subject); it is used only to decide which calls MUST succeed",
                                     "function bodies that themselves throw bad_boxed_cast (which dispatch treats as 'try the next overload') are known finding C06-K1 and not generated"],
        expected_probes=["probe_entered_through_base_conversion", "probe_entered_through_conversion_or_catch_all", "casts_succeeded", "casts_refused", "calls_refused", "probe_entered_body_raised_bad_cast", "probe_shared_ptr_variable_reseated"],
        **two(40, 420,
              {"asan": {"workers": 8}, "plain": {"workers": 4}, "tsan": {"workers": 4}},
              {"asan": {"workers": 8}, "plain": {"workers": 4}, "tsan": {"workers": 4}}),
    ),
}
