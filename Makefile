# Build of the simulator, one binary per flavour:  build/<flavour>/simrun
#   plain : g++ -O1                       (throughput, valgrind spot checks)
#   asan  : clang++ -O1 -g  ASan+UBSan
#   tsan  : clang++ -O1 -g  TSan          (sched.cpp is compiled WITHOUT -fsanitize=thread)
#   cov   : clang++ source-based coverage  (not built by default; used by bin/coverage to measure reach)
# Everything is rebuilt when /repo/include or /repo/static_libs change (stamp file with their hash).
REPO ?= /repo
B := build
FLAVOURS ?= plain asan tsan
WORLDS := $(basename $(notdir $(wildcard sim/worlds/c*.cpp)))

CXX_plain := g++
CXX_asan := clang++
CXX_tsan := clang++
CXX_cov := clang++
FLAGS_plain := -O1
FLAGS_asan := -O1 -g -fno-omit-frame-pointer -fsanitize=address,undefined -fno-sanitize=vptr -fno-sanitize-recover=undefined
FLAGS_tsan := -O1 -g -fno-omit-frame-pointer -fsanitize=thread
FLAGS_cov := -O1 -g -fprofile-instr-generate -fcoverage-mapping
SCHED_FLAGS_plain := -O1
SCHED_FLAGS_asan := -O1 -g
SCHED_FLAGS_tsan := -O1 -g
SCHED_FLAGS_cov := -O1 -g

COMMON := -std=c++17 -pthread -DCHAISCRIPT_VERIF -Isim/include -Isim/core -I$(REPO)/include -I$(REPO)/static_libs -Wall -Wno-unused-function

STAMP := $(B)/repo.stamp

all: $(foreach f,$(FLAVOURS),$(B)/$(f)/simrun $(B)/$(f)/libc15mod.so)

# the stamp changes (and forces a rebuild) whenever the hashed repo sources change
.PHONY: FORCE
$(STAMP): FORCE Makefile
	@mkdir -p $(B)
	@h=$$( (find $(REPO)/include $(REPO)/static_libs -type f \( -name '*.hpp' -o -name '*.cpp' -o -name '*.h' \) -print0 | sort -z | xargs -0 sha256sum; sha256sum Makefile; ) | sha256sum | cut -d' ' -f1); \
	 if [ ! -f $@ ] || [ "$$(cat $@)" != "$$h" ]; then echo $$h > $@; fi

define FLAVOUR_RULES
$(B)/$(1)/stdlib.o: $(REPO)/static_libs/chaiscript_stdlib.cpp $(STAMP)
	@mkdir -p $(B)/$(1)
	$$(CXX_$(1)) $(COMMON) $$(FLAGS_$(1)) -c $$< -o $$@
$(B)/$(1)/parser.o: $(REPO)/static_libs/chaiscript_parser.cpp $(STAMP)
	@mkdir -p $(B)/$(1)
	$$(CXX_$(1)) $(COMMON) $$(FLAGS_$(1)) -c $$< -o $$@
$(B)/$(1)/sched.o: sim/core/sched.cpp sim/core/simsched.h
	@mkdir -p $(B)/$(1)
	$$(CXX_$(1)) -std=c++17 -pthread $$(SCHED_FLAGS_$(1)) -Isim/core -Wall -c $$< -o $$@
$(B)/$(1)/filelayer.o: sim/core/filelayer.cpp sim/core/filelayer.h sim/core/simsched.h
	@mkdir -p $(B)/$(1)
	$$(CXX_$(1)) -std=c++17 -pthread $$(SCHED_FLAGS_$(1)) -Isim/core -Isim/include -Wall -c $$< -o $$@
$(B)/$(1)/simrun.o: sim/core/simrun.cpp sim/core/common.hpp sim/core/simsched.h
	@mkdir -p $(B)/$(1)
	$$(CXX_$(1)) $(COMMON) $$(FLAGS_$(1)) -c $$< -o $$@
$(B)/$(1)/simworld.o: sim/core/simworld.cpp sim/core/simworld.hpp sim/core/common.hpp sim/core/simsched.h sim/include/chaiscript_verif_sync.hpp $(STAMP)
	@mkdir -p $(B)/$(1)
	$$(CXX_$(1)) $(COMMON) $$(FLAGS_$(1)) -c $$< -o $$@
$(B)/$(1)/%.o: sim/worlds/%.cpp sim/core/simworld.hpp sim/core/common.hpp sim/core/simsched.h sim/core/filelayer.h sim/include/chaiscript_verif_sync.hpp $(STAMP)
	@mkdir -p $(B)/$(1)
	$$(CXX_$(1)) $(COMMON) $$(FLAGS_$(1)) -c $$< -o $$@
# loadable extension modules (dlopen'ed by world C15 through ChaiScript_Basic::load_module)
$(B)/$(1)/libc15mod.so: sim/modules/c15mod.cpp sim/include/chaiscript_verif_sync.hpp $(STAMP)
	@mkdir -p $(B)/$(1)
	$$(CXX_$(1)) $(COMMON) $$(FLAGS_$(1)) -shared -fPIC $$< -o $$@
$(B)/$(1)/simrun: $(B)/$(1)/simrun.o $(B)/$(1)/simworld.o $(B)/$(1)/sched.o $(B)/$(1)/filelayer.o $(B)/$(1)/stdlib.o $(B)/$(1)/parser.o $(foreach w,$(WORLDS),$(B)/$(1)/$(w).o)
	$$(CXX_$(1)) $$(FLAGS_$(1)) -pthread -rdynamic $$^ -o $$@ -ldl
endef

$(foreach f,plain asan tsan cov,$(eval $(call FLAVOUR_RULES,$(f))))

# small interactive probe: evaluates its arguments one after another on one engine
$(B)/plain/probe: sim/core/probe.cpp $(B)/plain/simworld.o $(B)/plain/sched.o $(B)/plain/stdlib.o $(B)/plain/parser.o
	g++ $(COMMON) -O1 $^ -o $@

clean:
	rm -rf $(B)
