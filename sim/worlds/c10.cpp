// World C10 — exceptions are delivered, not lost or altered.
//
// A plan is a generated *nest*: a tree of frames (def, lambda, method, bind, for_each / map
// callbacks, attribute-held function, C++ std::function trampoline), plain wrappers (block, if,
// for, while, switch, ranged for) and try statements with 0..3 catch clauses (untyped or typed)
// and an optional finally; every block emits t(id).  Fault ENUMERATION per nest: every leaf in
// turn is the throw site x every thrown kind (script int / string / script-class object /
// runtime_error value, failed dispatch, C++ runtime_error / out_of_range / logic_error / user
// class / int thrown by a registered function, errors and throws inside a nested script-level
// eval("...") / eval(parse("...")), a throwing guard, a call every guard rejects)
// x {no exception_specification, <int, string, bool, double>}.
// Oracle: a reference interpreter of try/catch/finally over the same nest (DESIGN.md appendix B)
// predicts the exact t() trace and how the exception leaves eval.
#include "simworld.hpp"

using namespace verif;
using namespace chaiscript;

namespace {

  struct UserExc10 {
    int code;
  };
  // a C++ class the script obtains from a registered factory and throws itself; its NAME may be registered with the
  // engine before the script runs or only between two calls of the same (already evaluated) function
  struct AppExc10 {
    int code;
  };

  constexpr int N_KINDS = 21; // enumerated kinds; kind 21 exists for the known-finding replay only
  const char *kind_names[N_KINDS + 1] = {"script_int", "script_string", "script_object", "script_runtime_error", "failed_dispatch",
                                     "cpp_runtime_error", "cpp_out_of_range", "cpp_logic_error", "cpp_user_class", "cpp_int",
                                     "script_bool", "script_double", "script_bool_expression",
                                     "nested_eval_failed_dispatch", "nested_eval_parse_error", "nested_eval_script_int", "guard_throws", "all_guards_reject", "parsed_tree_failed_dispatch", "parsed_tree_script_int", "script_thrown_cpp_object", "cpp_bad_boxed_cast_from_body"};
  // dynamic type of the thrown value, "" = not representable in script (bypasses catch clauses)
  const char *kind_type[N_KINDS + 1] = {"int", "string", "MyExc", "runtime_error", "eval_error", "runtime_error", "out_of_range", "logic_error", "", "", "bool", "double", "bool",
                                    "eval_error", "eval_error", "int", "int", "eval_error", "eval_error", "int", "AppExc", "exception"};
  const char *catch_types[] = {"", "int", "string", "MyExc", "OtherExc", "runtime_error", "out_of_range", "logic_error", "exception", "eval_error", "bool", "double", "-", "AppExc"};
  constexpr int N_CATCH_TYPES = 14; // "" = catch (e), "-" = catch without a variable

  bool derives(const std::string &dyn, const std::string &base) {
    if (dyn == base) return true;
    if (dyn == "eval_error") return base == "runtime_error" || base == "exception";
    if (dyn == "runtime_error") return base == "exception";
    if (dyn == "out_of_range") return base == "logic_error" || base == "exception";
    if (dyn == "logic_error") return base == "exception";
    return false;
  }

  // ------------------------------------------------------------------ generator
  struct Gen {
    Rng &rng;
    int next_id = 1;
    int tries = 0;
    explicit Gen(Rng &r) : rng(r) {}
    J leaf() {
      J j = J::object();
      j["k"] = J("T");
      j["id"] = J(next_id++);
      return j;
    }
    J body(int d, bool top) {
      J b = J::array();
      b.push(leaf());
      const int n = int(rng.range(top ? 1 : 0, 2));
      for (int i = 0; i < n; ++i) {
        b.push(stmt(d));
        if (rng.chance(600)) {
          b.push(leaf());
        }
      }
      return b;
    }
    J stmt(int d) {
      if (d <= 0 || next_id > 14) {
        return leaf();
      }
      const int k = int(rng.below(10));
      J j = J::object();
      if (k < 4 && tries < 3) {
        ++tries;
        j["k"] = J("try");
        j["body"] = body(d - 1, true);
        J cs = J::array();
        const int form = int(rng.below(10)); // 0: finally only, else catches (+ maybe finally)
        const int nc = form == 0 ? 0 : int(rng.range(1, 3));
        for (int i = 0; i < nc; ++i) {
          J c = J::object();
          c["type"] = J(catch_types[rng.below(N_CATCH_TYPES)]);
          J cb = J::array();
          cb.push(leaf());
          if (rng.chance(150)) {
            J t2 = J::object();
            t2["k"] = J("throw2");
            t2["id"] = J(next_id++);
            cb.push(t2);
          } else if (c.at("type").str() != "-" && rng.chance(180)) {
            // the clause throws the object it caught again
            J rt = J::object();
            rt["k"] = J("rethrow");
            rt["id"] = J(next_id++);
            cb.push(rt);
          } else if (rng.chance(200)) {
            cb.push(stmt(d - 1));
          }
          c["body"] = cb;
          cs.push(c);
        }
        j["catches"] = cs;
        if (form == 0 || rng.chance(450)) {
          J fb = J::array();
          fb.push(leaf());
          if (rng.chance(80)) {
            J t2 = J::object();
            t2["k"] = J("throw2");
            t2["id"] = J(next_id++);
            fb.push(t2);
          }
          j["finally"] = fb;
        }
        return j;
      }
      if (k < 8) {
        j["k"] = J("call");
        j["frame"] = J(int(rng.below(11)));
        j["body"] = body(d - 1, false);
        return j;
      }
      j["k"] = J("wrap");
      j["w"] = J(int(rng.below(6)));
      j["body"] = body(d - 1, false);
      return j;
    }
  };

  // ------------------------------------------------------------------ renderer
  struct Render {
    int site, kind;
    std::string prelude;
    int names = 0;
    std::string n(const char *p) { return std::string(p) + std::to_string(names++); }
    std::string throw_stmt() const {
      switch (kind) {
      case 0: return "throw(1);";
      case 1: return "throw(\"s\");";
      case 2: return "throw(MyExc());";
      case 3: return "throw(runtime_error(\"x\"));";
      case 4: return "undefined_function_zzz();";
      case 10: return "throw(true);";
      case 11: return "throw(2.5);";
      case 12: return "throw(1 < 2);";
      case 13: return "eval(\"undefined_function_zzz()\");";
      case 14: return "eval(\"1 +* ;\");";
      case 15: return "eval(\"throw(5)\");";
      case 16: return "guard_throws_fn(1);";
      case 17: return "all_guards_reject_fn(1);";
      case 18: return "eval(parse(\"undefined_function_zzz()\"));";
      case 19: return "eval(parse(\"throw(6)\"));";
      case 20: return "throw(make_app(7));";
      case 21: return "cb(21);";
      default: return "cb(" + std::to_string(kind) + ");";
      }
    }
    std::string body(const J &b) {
      std::string out;
      for (size_t i = 0; i < b.size(); ++i) {
        out += stmt(b[i]) + "\n";
      }
      return out;
    }
    std::string stmt(const J &s) {
      const std::string k = s.at("k").str();
      if (k == "T") {
        const int id = int(s.at("id").num());
        return "t(" + std::to_string(id) + ");" + (id == site ? " " + throw_stmt() : "");
      }
      if (k == "throw2") {
        return "t(" + std::to_string(s.at("id").num()) + "); throw(777);";
      }
      if (k == "rethrow") {
        return "t(" + std::to_string(s.at("id").num()) + "); throw(e);";
      }
      if (k == "wrap") {
        const std::string b = body(s.at("body"));
        switch (s.at("w").num()) {
        case 0: return "{ " + b + "}";
        case 1: return "if (true) { " + b + "}";
        case 2: {
          const std::string i = n("i");
          return "for (var " + i + " = 0; " + i + " < 1; ++" + i + ") { " + b + "}";
        }
        case 3: {
          const std::string w = n("w");
          return "var " + w + " = 0; while (" + w + " < 1) { ++" + w + "; " + b + "}";
        }
        case 4: return "switch (1) { case (1) { " + b + "} }";
        default: return "for (" + n("x") + " : [1]) { " + b + "}";
        }
      }
      if (k == "call") {
        const std::string b = body(s.at("body"));
        switch (s.at("frame").num()) {
        case 0: {
          const std::string f = n("f");
          prelude += "def " + f + "() { " + b + "}\n";
          return f + "();";
        }
        case 1: return "fun() { " + b + "}();";
        case 2: {
          const std::string c = n("K");
          prelude += "class " + c + " { def " + c + "() {}; def m() { " + b + "} };\n";
          return c + "().m();";
        }
        case 3: return "bind(fun(a) { " + b + "}, 1)();";
        case 4: return "for_each([1], fun(x) { " + b + "});";
        case 5: return "map([1], fun(x) { " + b + "return x });";
        case 6: {
          const std::string o = n("o");
          return "fun() { var " + o + " = Dynamic_Object(); " + o + ".f = fun() { " + b + "}; " + o + ".f(); }();";
        }
        case 7: return "call_cpp0(fun() { " + b + "});";
        case 8: {
          // two guarded overloads: the first guard rejects (guard_error inside dispatch), the second accepts
          const std::string f = n("g");
          prelude += "def " + f + "(x) : x == 0 { t(9000); }\ndef " + f + "(x) : x == 1 { " + b + "}\n";
          return f + "(1);";
        }
        case 10: {
          // the body runs inside the GUARD of a function: whatever is thrown there belongs to the caller like anything else
          const std::string g = n("gb");
          prelude += "def " + g + "() { " + b + "return true }\ndef " + g + "f(x) : " + g + "() { }\n";
          return g + "f(1);";
        }
        default: {
          // overloads of other arities and of a non-matching parameter type come first
          const std::string f = n("a");
          prelude += "def " + f + "() { t(9001); }\ndef " + f + "(string s) { t(9002); }\ndef " + f + "(a, b) { t(9003); }\ndef " + f + "(int a) { " + b + "}\n";
          return f + "(1);";
        }
        }
      }
      // try
      std::string out = "try { " + body(s.at("body")) + "}";
      const J &cs = s.at("catches");
      for (size_t i = 0; i < cs.size(); ++i) {
        const std::string ty = cs[i].at("type").str();
        if (ty == "-") {
          out += " catch { " + body(cs[i].at("body")) + "}";
        } else {
          out += " catch (" + (ty.empty() ? std::string("e") : ty + " e") + ") { " + body(cs[i].at("body")) + "}";
        }
      }
      if (s.has("finally")) {
        out += " finally { " + body(s.at("finally")) + "}";
      }
      return out;
    }
  };

  // ------------------------------------------------------------------ reference interpreter
  struct Exc {
    bool active = false;
    std::string type;   // dynamic type, "" = not representable
    std::string leave;  // how it looks when it leaves eval without / with <int,string> specification
    std::string leave_spec;
  };

  struct Ref {
    int site, kind;
    std::vector<int> trace;
    std::map<std::string, int64_t> probes;
    bool app_known = true;   // the name AppExc is registered with the engine
    std::vector<Exc> caught; // exceptions whose catch clause is currently running (innermost last)
    Exc primary() const {
      Exc e;
      e.active = true;
      e.type = kind_type[kind];
      static const std::string app_leave = std::string("Boxed_Value|T:") + user_type<AppExc10>().bare_name();
      static const char *leave[N_KINDS + 1] = {"Boxed_Value|i:1", "Boxed_Value|s:s", "Boxed_Value|obj:MyExc{}", "Boxed_Value|exc:St13runtime_error:x",
                                           "eval_error|Can not find object: undefined_function_zzz", "St13runtime_error|injected", "St12out_of_range|injected",
                                           "St11logic_error|injected", "user_class|", "int|9", "Boxed_Value|true", "Boxed_Value|d:2.5", "Boxed_Value|true",
                                           "Boxed_Value|eval_error:Can not find object: undefined_function_zzz", "Boxed_Value|eval_error:Incomplete '+' expression",
                                           "Boxed_Value|i:5", "Boxed_Value|i:3", "eval_error|Guard evaluation failed with function 'all_guards_reject_fn'",
                                           "Boxed_Value|eval_error:Can not find object: undefined_function_zzz", "Boxed_Value|i:6", app_leave.c_str(), "bad_boxed_cast|"};
      e.leave = leave[kind];
      // exception_specification<int, std::string, bool, double>: a script value of exactly one of these types
      // leaves eval as that C++ type
      static const char *spec[N_KINDS + 1] = {"int|1", "std::string|s", nullptr, nullptr, nullptr, nullptr, nullptr, nullptr, nullptr, nullptr, "bool|1", "double|2.5", "bool|1", nullptr, nullptr, "int|5", "int|3", nullptr, nullptr, "int|6", nullptr, nullptr};
      e.leave_spec = spec[kind] ? spec[kind] : e.leave;
      return e;
    }
    Exc body(const J &b) {
      for (size_t i = 0; i < b.size(); ++i) {
        Exc e = stmt(b[i]);
        if (e.active) {
          return e; // nothing after the throw point in this block runs
        }
      }
      return Exc();
    }
    Exc stmt(const J &s) {
      const std::string k = s.at("k").str();
      if (k == "T") {
        trace.push_back(int(s.at("id").num()));
        if (int(s.at("id").num()) == site) {
          return primary();
        }
        return Exc();
      }
      if (k == "throw2") {
        trace.push_back(int(s.at("id").num()));
        Exc e;
        e.active = true;
        e.type = "int";
        e.leave = "Boxed_Value|i:777";
        e.leave_spec = "int|777";
        return e;
      }
      if (k == "rethrow") {
        trace.push_back(int(s.at("id").num()));
        probes["probe_caught_object_thrown_again"] += 1;
        Exc e = caught.empty() ? Exc() : caught.back();
        // thrown by script now: it leaves eval as a Boxed_Value holding the same object
        if (e.leave.rfind("Boxed_Value|", 0) != 0) {
          if (e.type == "eval_error") {
            e.leave = "Boxed_Value|eval_error:" + e.leave.substr(e.leave.find('|') + 1);
          } else {
            const size_t bar = e.leave.find('|');
            e.leave = "Boxed_Value|exc:" + e.leave.substr(0, bar) + ":" + e.leave.substr(bar + 1);
          }
          e.leave_spec = e.leave;
        }
        return e;
      }
      if (k == "wrap" || k == "call") {
        return body(s.at("body")); // frames and wrappers are transparent for exceptions
      }
      // try
      Exc r = body(s.at("body"));
      if (r.active) {
        probes["probe_exception_reached_a_try"] += 1;
        if (!r.type.empty()) {
          const J &cs = s.at("catches");
          bool matched = false;
          for (size_t i = 0; i < cs.size(); ++i) {
            const std::string ty = cs[i].at("type").str();
            if (ty == "AppExc" && !app_known) {
              continue; // an unregistered name in a clause denotes no C++ type: the clause takes nothing (yet)
            }
            if (ty.empty() || ty == "-" || derives(r.type, ty)) {
              matched = true;
              probes[ty == "-" ? "probe_caught_without_variable" : ty.empty() ? "probe_caught_untyped" : "probe_caught_typed"] += 1;
              if (i > 0) {
                probes["probe_earlier_clause_skipped"] += 1;
              }
              caught.push_back(r);
              r = body(cs[i].at("body")); // at most one clause per exception
              caught.pop_back();
              if (r.active) {
                probes["probe_catch_block_threw"] += 1;
              }
              break;
            }
          }
          if (!matched && cs.size() > 0) {
            probes["probe_no_clause_matched"] += 1;
          }
          if (cs.size() == 0) {
            probes["probe_try_finally_without_catch"] += 1;
          }
        } else {
          probes["probe_unrepresentable_bypassed_clauses"] += 1;
        }
      }
      if (s.has("finally")) {
        Exc f = body(s.at("finally")); // exactly once on every path
        if (r.active) {
          probes["probe_finally_ran_while_unwinding"] += 1;
        }
        if (f.active) {
          r = f;
        }
      }
      return r;
    }
  };

  void collect_leaves(const J &b, std::vector<int> &out) {
    for (size_t i = 0; i < b.size(); ++i) {
      const J &s = b[i];
      const std::string k = s.at("k").str();
      if (k == "T") {
        out.push_back(int(s.at("id").num()));
      } else if (k == "try") {
        collect_leaves(s.at("body"), out);
        for (size_t c = 0; c < s.at("catches").size(); ++c) {
          collect_leaves(s.at("catches")[c].at("body"), out);
        }
        if (s.has("finally")) {
          collect_leaves(s.at("finally"), out);
        }
      } else if (k == "wrap" || k == "call") {
        collect_leaves(s.at("body"), out);
      }
    }
  }

  struct One {
    std::string rule, detail, got_outcome;
    bool threw = false;
  };

  One run_one(const J &nest, int site, int kind, bool spec, bool late = false) {
    One res;
    Render rn{site, kind, "class MyExc { def MyExc() {} };\nclass OtherExc { def OtherExc() {} };\n"
                         "def guard_thrower() { throw(3); return true }\ndef guard_throws_fn(x) : guard_thrower() { t(9004); }\n"
                         "def all_guards_reject_fn(x) : x == 0 { t(9005); }\n"};
    const std::string main_body = rn.body(nest);
    const std::string script = rn.prelude + main_body;

    auto chai = make_engine();
    Engine &e = *chai;
    std::vector<int> trace;
    e.add(fun([&trace](int n) { trace.push_back(n); }), "t");
    e.add(fun([](int k) {
            sim_yield(7, nullptr);
            switch (k) {
            case 5: throw std::runtime_error("injected");
            case 6: throw std::out_of_range("injected");
            case 7: throw std::logic_error("injected");
            case 8: throw UserExc10{8};
            case 21: throw exception::bad_boxed_cast(utility::Static_String("raised by the body of a registered function"));
            default: throw 9;
            }
          }),
          "cb");
    e.add(fun([](const std::function<void()> &f) { f(); }), "call_cpp0");
    e.add(fun([](int v) { return AppExc10{v}; }), "make_app");
    if (!late) {
      e.add(user_type<AppExc10>(), "AppExc");
    }
    auto run_eval = [&](const std::string &text) -> std::string {
      try {
        if (spec) {
          e.eval(text, exception_specification<int, std::string, bool, double>());
        } else {
          e.eval(text);
        }
        return "returned";
      } catch (const UserExc10 &) {
        return "user_class|";
      } catch (const std::string &s) {
        return "std::string|" + s;
      } catch (bool b) {
        return std::string("bool|") + (b ? "1" : "0");
      } catch (double d) {
        return d == 2.5 ? "double|2.5" : "double|?";
      } catch (...) {
        return describe_current_exception(&e);
      }
    };
    auto compare = [&](Ref &ref, const Exc &want, const std::string &got, const char *label) {
      const std::string want_out = want.active ? (spec ? want.leave_spec : want.leave) : "returned";
      res.got_outcome += got;
      res.threw = res.threw || got != "returned";
      std::string gt, wt;
      for (int v : trace) {
        gt += std::to_string(v) + " ";
      }
      for (int v : ref.trace) {
        wt += std::to_string(v) + " ";
      }
      if ((gt != wt || got != want_out) && res.rule.empty()) {
        if (got == "returned" && want.active) {
          res.rule = "exception-lost";
        } else if (gt == wt) {
          res.rule = "exception-altered-or-spurious";
        } else {
          res.rule = "handler-trace-differs";
        }
        res.detail = std::string("site ") + std::to_string(site) + " kind " + kind_names[kind] + (spec ? " with exception_specification<int,string,bool,double>" : "") + label + ": trace got [" + gt
            + "] want [" + wt + "]; outcome got " + got + " want " + want_out + "; script: " + script;
      }
    };
    if (!late) {
      Ref ref{site, kind};
      Exc want = ref.body(nest);
      const std::string got = run_eval(script);
      compare(ref, want, got, "");
      return res;
    }
    // the nest is the body of a function that is called twice: the first time while the name AppExc is not registered
    // (a clause naming it takes nothing), then - the host has registered the type in between - with the clause live
    const std::string defs = run_eval(rn.prelude + "def nest_main() { " + main_body + "}");
    if (defs != "returned") {
      res.rule = "exception-altered-or-spurious";
      res.detail = "defining the nest as a function failed: " + defs + "; script: " + script;
      return res;
    }
    {
      trace.clear();
      Ref ref{site, kind};
      ref.app_known = false;
      Exc want = ref.body(nest);
      const std::string got = run_eval("nest_main();");
      compare(ref, want, got, " (first call, type name AppExc not registered yet)");
    }
    e.add(user_type<AppExc10>(), "AppExc");
    {
      trace.clear();
      Ref ref{site, kind};
      Exc want = ref.body(nest);
      const std::string got = run_eval("nest_main();");
      compare(ref, want, got, " (second call of the same function, after the host registered the type name AppExc)");
    }
    return res;
  }

  class C10 : public World {
  public:
    const char *id() const override { return "C10"; }

    J generate(uint64_t run_seed, const std::string &tier) override {
      Rng plan(mix(run_seed, 1));
      const bool thorough = tier == "thorough";
      Gen g(plan);
      J p = J::object();
      J nest = J::array();
      nest.push(g.leaf());
      const int n = int(plan.range(1, 2));
      const int depth = int(plan.range(2, thorough ? 5 : 4));
      for (int i = 0; i < n; ++i) {
        // make sure every nest has at least one try
        J s = g.stmt(depth);
        nest.push(s);
        nest.push(g.leaf());
      }
      if (g.tries == 0) {
        J t = J::object();
        t["k"] = J("try");
        J b = J::array();
        b.push(g.leaf());
        b.push(g.stmt(1));
        t["body"] = b;
        J cs = J::array();
        J c = J::object();
        c["type"] = J(catch_types[plan.below(N_CATCH_TYPES)]);
        J cb = J::array();
        cb.push(g.leaf());
        c["body"] = cb;
        cs.push(c);
        t["catches"] = cs;
        nest.push(t);
        nest.push(g.leaf());
      }
      p["nest"] = nest;
      J sh = J::array();
      p["shrinkable"] = sh; // the nest is a tree; replays are already a single (site, kind) execution
      return p;
    }

    RunResult execute(const J &plan) override {
      warm_up();
      RunResult r;
      const J &nest = plan.at("nest");
      uint64_t h = 0xcbf29ce484222325ULL;
      r.evals = 0;
      auto one = [&](int site, int kind, bool spec, bool late = false) -> bool {
        One o = run_one(nest, site, kind, spec, late);
        ++r.evals;
        h = fnv1a(o.got_outcome, h) * 31 + uint64_t(site) * 7 + uint64_t(kind);
        if (o.threw) {
          r.counters["probe_exception_left_eval"] += 1;
        }
        r.counters[std::string("fault_throw_") + kind_names[kind]] += 1;
        if (!o.rule.empty()) {
          r.fail(o.rule, o.detail);
          J only = J::object();
          only["site"] = J(site);
          only["kind"] = J(kind);
          only["spec"] = J(spec);
          only["late"] = J(late);
          r.plan_patch = J::object();
          r.plan_patch["only"] = only;
          return false;
        }
        return true;
      };
      if (plan.has("only")) {
        const J &o = plan.at("only");
        one(int(o.at("site").num()), int(o.at("kind").num()) % (N_KINDS + 1), o.at("spec").truthy(), o.has("late") && o.at("late").truthy());
        r.event_hash = h;
        r.nontrivial = true;
        r.distinct_key = h;
        return r;
      }
      // known findings steer: nothing excluded here; see known_findings.json
      std::vector<int> leaves;
      collect_leaves(nest, leaves);
      // reference-only pass to collect reach probes (cheap)
      for (int site : leaves) {
        for (int kind = 0; kind < N_KINDS; ++kind) {
          Ref ref{site, kind};
          ref.body(nest);
          for (auto &kv : ref.probes) {
            r.counters[kv.first] += kv.second;
          }
        }
      }
      bool ok = true;
      // fault-free
      ok = one(0, 0, false);
      for (size_t i = 0; ok && i < leaves.size(); ++i) {
        for (int kind = 0; ok && kind < N_KINDS; ++kind) {
          for (int spec = 0; ok && spec < 2; ++spec) {
            if (spec == 1 && ((kind > 2 && kind < 10) || kind == 13 || kind == 14 || kind == 17 || kind == 18 || kind == 20)) {
              continue; // the specification only concerns script-thrown values
            }
            ok = one(leaves[i], kind, spec != 0);
            ++r.distinct_extra;
            if (ok && kind == 20 && spec == 0) {
              ok = one(leaves[i], kind, false, true);
              ++r.distinct_extra;
              r.counters["probe_type_name_registered_between_two_calls"] += 1;
            }
          }
        }
      }
      r.counters["nests"] += 1;
      r.counters["leaves"] += int64_t(leaves.size());
      r.event_hash = h;
      r.nontrivial = false;
      r.distinct_key = h;
      return r;
    }
  };

  C10 g_c10;
  RegisterWorld reg_c10(&g_c10);
} // namespace
