// World C11 — objects live exactly as long as something refers to them.
//
// System under simulation: one engine on its owning thread, an instrumented C++ class `Tracked`
// (plus TrackedDerived for base conversions, TSource for user conversions that create temporaries,
// Holder owning a shared_ptr<Tracked>) whose every instance is registered under a fresh id with a
// canary.  Generated programs create, copy, clone, store (vector, map, attribute), capture, bind,
// pass (value, const&, &, *, shared_ptr), return and drop instances in nested scopes, let values
// escape through a C++-held shared_ptr, a global or the result of eval, and capture loop variables
// in closures that outlive the loop.
// Faults: the k-th instrumented constructor / copy throws (every k for small programs, a seeded
// sample above 40 calls); scopes left by script throw; the engine is destroyed while C++ still
// holds shared_ptrs.
// Oracle: instance registry — no member/harness function ever sees a destroyed instance (canary +
// ASan with detect_stack_use_after_return), no id destroyed twice, at quiescence (after the eval
// returned or threw, and one flushing eval) the live set equals exactly the instances reachable
// from the escapes, after engine destruction and release of the C++ holders the live set is empty.
#include "simworld.hpp"

#include <set>

using namespace verif;
using namespace chaiscript;

namespace {

  constexpr uint32_t MAGIC = 0x7ac4ed11u;

  struct Registry {
    std::vector<int> state; // 0 unused, 1 alive, 2 destroyed
    std::vector<std::string> problems;
    int instrumented_calls = 0;
    int fault_at = 0; // the k-th constructor/copy throws (0 = never)
    int ctor_calls = 0;
    bool fired = false;
    int fresh() {
      state.push_back(1);
      return int(state.size()) - 1;
    }
    void destroyed(int id, uint32_t canary) {
      if (canary != MAGIC || id < 0 || id >= int(state.size())) {
        problems.push_back("destructor ran on a corrupted / foreign object");
        return;
      }
      if (state[size_t(id)] != 1) {
        problems.push_back("instance " + std::to_string(id) + " destroyed twice");
      }
      state[size_t(id)] = 2;
    }
    void touch(int id, uint32_t canary, const char *where) {
      ++instrumented_calls;
      if (canary != MAGIC) {
        problems.push_back(std::string(where) + " touched an object with a dead canary");
      } else if (id < 0 || id >= int(state.size()) || state[size_t(id)] != 1) {
        problems.push_back(std::string(where) + " touched destroyed instance " + std::to_string(id));
      }
    }
    void maybe_throw() {
      ++ctor_calls;
      if (fault_at != 0 && ctor_calls == fault_at) {
        fired = true;
        throw std::runtime_error("injected constructor failure");
      }
    }
    std::set<int> live() const {
      std::set<int> s;
      for (size_t i = 0; i < state.size(); ++i) {
        if (state[i] == 1) {
          s.insert(int(i));
        }
      }
      return s;
    }
  };

  Registry *g_reg = nullptr;

  struct Tracked {
    int id;
    uint32_t canary;
    int v;
    explicit Tracked(int value) : v(value) {
      g_reg->maybe_throw();
      id = g_reg->fresh();
      canary = MAGIC;
    }
    Tracked(const Tracked &o) : v(o.v) {
      g_reg->touch(o.id, o.canary, "copy constructor (source)");
      g_reg->maybe_throw();
      id = g_reg->fresh();
      canary = MAGIC;
    }
    Tracked &operator=(const Tracked &o) {
      g_reg->touch(o.id, o.canary, "assignment (source)");
      g_reg->touch(id, canary, "assignment (target)");
      v = o.v;
      return *this;
    }
    virtual ~Tracked() {
      // an instance that outlives its run (already reported there as a leak) is destroyed when nobody listens
      if (g_reg) {
        g_reg->destroyed(id, canary);
      }
      canary = 0xdeadbeefu;
    }
    int value() const {
      g_reg->touch(id, canary, "value()");
      return v;
    }
    void set_value(int n) {
      g_reg->touch(id, canary, "set_value()");
      v = n;
    }
  };
  struct TrackedDerived : Tracked {
    explicit TrackedDerived(int value) : Tracked(value) {}
    TrackedDerived(const TrackedDerived &) = default;
  };
  struct TSource {
    int v;
  };
  struct Holder {
    std::shared_ptr<Tracked> p;
  };
  // a C++ object that hands out its part through a getter returning `const std::shared_ptr<Tracked> &`
  struct PartOwner {
    std::shared_ptr<Tracked> part;
  };

  // ------------------------------------------------------------------ generator
  struct Gen {
    Rng &rng;
    int next_name = 0;
    int n_stmts = 0;
    explicit Gen(Rng &r) : rng(r) {}
    std::string nm(const char *p) { return std::string(p) + std::to_string(next_name++); }
    std::string num() { return std::to_string(rng.range(1, 99)); }

    std::string source(const std::vector<std::string> &objs) {
      const int k = int(rng.below(objs.empty() ? 5 : 9));
      switch (k) {
      case 0:
      case 1: return "Tracked(" + num() + ")";
      case 2: return "make_value(" + num() + ")";
      case 3: return "make_shared_t(" + num() + ")";
      case 4: return "make_unique_t(" + num() + ")";
      case 5: return "Tracked(" + rng.pick(objs) + ")";
      case 6: return "clone(" + rng.pick(objs) + ")";
      case 7: return "mk(" + num() + ")";
      default: return rng.pick(objs);
      }
    }
    std::string use(const std::string &x) {
      static const char *fns[] = {"by_value", "by_cref", "by_ref", "by_ptr", "by_shared", "by_cptr"};
      const int k = int(rng.below(9));
      if (k < 6) {
        return std::string(fns[k]) + "(" + x + ");";
      }
      if (k == 6) return x + ".value();";
      if (k == 7) return x + ".set_value(" + num() + ");";
      return "t(" + x + ".value());";
    }
    std::string block(int d, std::vector<std::string> objs, std::vector<std::string> vecs, int max_n, std::vector<std::string> *sink = nullptr) {
      std::string out;
      const int n = int(rng.range(1, max_n));
      for (int i = 0; i < n && n_stmts < 25; ++i) {
        ++n_stmts;
        if (sink && !out.empty()) {
          sink->push_back(out); // the statements of the outermost block are kept apart so that replays can be shrunk
          out.clear();
        }
        const int k = int(rng.below(d <= 0 ? 12 : 37));
        switch (k) {
        case 0:
        case 1:
        case 2: {
          const std::string x = nm("x");
          out += "var " + x + " = " + source(objs) + "; ";
          objs.push_back(x);
          break;
        }
        case 3:
        case 4:
          if (!objs.empty()) {
            out += use(rng.pick(objs)) + " ";
          } else {
            out += "by_cref(Tracked(" + num() + ")); ";
          }
          break;
        case 5:
          out += use("Tracked(" + num() + ")") + " "; // temporary argument
          break;
        case 6: {
          const std::string v = nm("v");
          out += "var " + v + " = [" + source(objs) + ", " + source(objs) + "]; ";
          vecs.push_back(v);
          break;
        }
        case 7:
          if (!vecs.empty() && !objs.empty()) {
            const std::string v = rng.pick(vecs);
            out += v + (rng.chance(500) ? ".push_back(" : ".push_back_ref(") + rng.pick(objs) + "); by_cref(" + v + "[0]); ";
          }
          break;
        case 8: {
          const std::string m = nm("m");
          out += "var " + m + " = [\"a\": " + source(objs) + "]; " + m + "[\"b\"] = " + source(objs) + "; by_cref(" + m + "[\"a\"]); ";
          break;
        }
        case 9:
          out += "by_cref(TSource(" + num() + ")); "; // user conversion creates a temporary Tracked
          break;
        case 10:
          out += "by_cref(TrackedDerived(" + num() + ")); takes_derived_as_base(TrackedDerived(" + num() + ")); ";
          break;
        case 11: {
          const std::string o = nm("o");
          out += "var " + o + " = Dynamic_Object(); " + o + ".item = " + source(objs) + "; by_ref(" + o + ".item); ";
          break;
        }
        case 12:
          out += "{ " + block(d - 1, objs, vecs, 3) + "} ";
          break;
        case 13:
          out += "for (var i = 0; i < 2; ++i) { " + block(d - 1, objs, vecs, 2) + "} ";
          break;
        case 14:
          if (!vecs.empty()) {
            const std::string e = nm("e");
            out += "for (" + e + " : " + rng.pick(vecs) + ") { by_ref(" + e + "); } ";
          }
          break;
        case 15:
          if (!objs.empty()) {
            const std::string x = rng.pick(objs);
            const std::string l = nm("l");
            out += "var " + l + " = fun[" + x + "]() { return by_cref(" + x + ") }; " + l + "(); ";
          }
          break;
        case 16:
          if (!objs.empty()) {
            const std::string b = nm("b");
            out += "var " + b + " = bind(by_cref, " + rng.pick(objs) + "); " + b + "(); ";
          }
          break;
        case 17:
          out += "try { " + block(d - 1, objs, vecs, 2) + "throw(" + source(objs) + "); } catch (e) { by_cref(e); } ";
          break;
        case 18:
          // escapes: C++-held shared_ptr, Holder object, global
          if (!objs.empty()) {
            switch (rng.below(3)) {
            case 0: out += "keep(" + rng.pick(objs) + "); "; break;
            case 1: out += "keep_holder(Holder(" + rng.pick(objs) + ")); "; break;
            default: out += "set_global(" + rng.pick(objs) + ", \"G" + std::to_string(rng.below(2)) + "\"); "; break;
            }
          } else {
            out += "keep(make_shared_t(" + num() + ")); ";
          }
          break;
        case 19: {
          // a closure capturing the loop variable outlives the loop
          const std::string f = nm("f");
          out += "var " + f + "; for (var i = 0; i < 3; ++i) { " + f + " = fun[i]() { return i } }; t(" + f + "()); ";
          break;
        }
        case 20:
          if (!objs.empty()) {
            out += "if (flag()) { throw(" + rng.pick(objs) + ") }; ";
          }
          break;
        case 21: {
          const std::string x = nm("r");
          out += "var &" + x + " = held_ref(); by_ref(" + x + "); ";
          break;
        }
        case 26: {
          // a C++ function re-seats the shared_ptr the script variable holds; the variable is then used on
          // const and non-const paths
          if (!objs.empty()) {
            const std::string x = rng.pick(objs);
            out += "reseat(" + x + ", " + num() + "); by_cref(" + x + "); t(" + x + ".value()); by_value(" + x + "); " + x + ".set_value(" + num() + "); ";
          } else {
            const std::string x = nm("x");
            out += "var " + x + " = make_shared_t(" + num() + "); reseat(" + x + ", " + num() + "); by_cref(" + x + "); by_cptr(" + x + "); ";
            objs.push_back(x);
          }
          break;
        }
        case 27: {
          // a call that only resolves through an arithmetic conversion of another argument, and whose callee throws
          const std::string arg = objs.empty() ? "Tracked(" + num() + ")" : rng.pick(objs);
          out += "try { scale_throw(" + arg + ", " + std::to_string(rng.range(1, 9)) + "); } catch (e) { t(-4) } ";
          break;
        }
        case 28: {
          // loops left or cut short by break / continue while the iteration owns instances
          const std::string q = nm("q");
          switch (rng.below(3)) {
          case 0:
            out += "for (var i = 0; i < 3; ++i) { var " + q + " = " + source(objs) + "; if (i == 0) { continue }; by_cref(" + q + "); if (i == 1) { break }; by_ref(" + q + "); } ";
            break;
          case 1: {
            const std::string e = nm("e");
            out += "for (" + e + " : [" + source(objs) + ", " + source(objs) + ", " + source(objs) + "]) { var " + q + " = clone(" + e + "); if (" + q + ".value() % 2 == 0) { continue }; by_ref(" + e + "); break; } ";
            break;
          }
          default: {
            const std::string w = nm("w");
            out += "var " + w + " = 0; while (" + w + " < 3) { ++" + w + "; var " + q + " = " + source(objs) + "; if (" + w + " == 1) { continue }; { var inner = clone(" + q + "); if (" + w + " == 2) { break }; by_cref(inner); } } ";
            break;
          }
          }
          break;
        }
        case 29: {
          // base -> derived conversion: a value held as the base that really is the derived type is passed to a
          // function that wants the derived type (the converted value is saved for the duration of the call)
          const std::string b = nm("db");
          switch (rng.below(3)) {
          case 0: out += "takes_derived(make_derived_as_base(" + num() + ")); "; break;
          case 1: out += "var " + b + " = make_derived_as_base(" + num() + "); t(takes_derived(" + b + ")); keep(" + b + "); by_cref(" + b + "); "; break;
          default: out += "try { takes_derived(make_shared_t(" + num() + ")); } catch (e) { t(-5) } "; break; // not a derived object: refused
          }
          break;
        }
        case 30: {
          // C++ functions returning a (const) pointer to their argument; the result is used later in the statement
          std::string arg;
          switch (rng.below(objs.empty() ? 2 : 3)) {
          case 0: arg = "Tracked(" + num() + ")"; break;
          case 1: arg = "make_value(" + num() + ")"; break;
          default: arg = rng.pick(objs); break;
          }
          switch (rng.below(3)) {
          case 0: out += "t(peek(" + arg + ").value()); "; break;
          case 1: out += "by_cptr(peek(" + arg + ")); "; break;
          default: out += "by_ptr(peek_mut(" + (objs.empty() ? std::string("held_ref()") : rng.pick(objs)) + ")); "; break;
          }
          break;
        }
        case 31: {
          // the attribute map of a script object, taken while the object is alive and used after it is gone
          const std::string m = nm("am");
          switch (rng.below(3)) {
          case 0: out += "var " + m + " = fun() { var o = Dynamic_Object(); o.item = " + source(objs) + "; o.other = Tracked(" + num() + "); return o.get_attrs() }(); by_cref(" + m + "[\"item\"]); t(" + m + ".size()); "; break;
          case 1: out += "var " + m + " = Dynamic_Object(); " + m + ".item = " + source(objs) + "; var " + m + "a = " + m + ".get_attrs(); " + m + " := Dynamic_Object(); by_cref(" + m + "a[\"item\"]); "; break;
          default: out += "keep_value(fun() { var o = Dynamic_Object(); o.item = Tracked(" + num() + "); return o.get_attrs() }()); "; break;
          }
          break;
        }
        case 32: {
          // C++ calls a script function through std::function with an argument passed BY VALUE; the script
          // keeps the parameter beyond the call (by reference in a container, in a capture, in a global)
          const std::string kv = nm("kv");
          switch (rng.below(3)) {
          case 0: out += "var " + kv + " = []; call_with_value(fun[" + kv + "](p) { " + kv + ".push_back_ref(p) }, " + num() + "); by_cref(" + kv + "[0]); t(" + kv + "[0].value()); "; break;
          case 1: out += "var " + kv + " = Dynamic_Object(); call_with_value(fun[" + kv + "](p) { " + kv + ".f = fun[p]() { return by_cref(p) } }, " + num() + "); " + kv + ".f(); "; break;
          default: out += "call_with_value(fun(p) { keep_value(p) }, " + num() + "); "; break;
          }
          break;
        }
        case 35: {
          // reference-assignment whose two sides are the same object (directly, through two parameters of a helper, or
          // a container element onto itself): nothing may be destroyed, the variable keeps referring to a live object
          const std::string x = nm("sa");
          switch (rng.below(4)) {
          case 0: out += "var " + x + " = " + source(objs) + "; " + x + " := " + x + "; by_cref(" + x + "); t(" + x + ".value()); "; break;
          case 1: out += "var " + x + " = Tracked(" + num() + "); rebind(" + x + ", " + x + "); by_cref(" + x + "); " + x + ".set_value(" + num() + "); "; objs.push_back(x); break;
          case 2: out += "var " + x + " = [Tracked(" + num() + "), Tracked(" + num() + ")]; " + x + "[0] := " + x + "[0]; rebind(" + x + "[1], " + x + "[1]); by_cref(" + x + "[0]); by_ref(" + x + "[1]); "; break;
          default: out += "var " + x + " = make_shared_t(" + num() + "); var " + x + "b = fun[" + x + "]() { " + x + " := " + x + "; return " + x + " }(); keep(" + x + "); by_cref(" + x + "b); "; break;
          }
          break;
        }
        case 36: {
          // a C++ function takes `const std::shared_ptr<T> &` and calls back into script half-way; the callback re-seats
          // the very variable that was passed: the callee's parameter must still own the object it was given
          const std::string x = nm("sp");
          switch (rng.below(3)) {
          case 0: out += "var " + x + " = make_shared_t(" + num() + "); t(with_cb_sp(" + x + ", fun[" + x + "]() { " + x + " := make_shared_t(" + num() + ") })); by_cref(" + x + "); "; break;
          case 1: out += "var " + x + " = make_shared_t(" + num() + "); t(with_cb_sp(" + x + ", fun[" + x + "]() { reseat(" + x + ", " + num() + ") })); t(" + x + ".value()); "; break;
          default: out += "var " + x + " = [make_shared_t(" + num() + ")]; t(with_cb_sp(" + x + "[0], fun[" + x + "]() { " + x + ".clear() })); t(" + x + ".size()); "; break;
          }
          break;
        }
        case 34: {
          // an assignment is the last expression of a function, so its value is what the function returns: the
          // registered operator= hands back a C++ reference to the left-hand side, a local that is gone by then
          const std::string z = nm("z");
          switch (rng.below(3)) {
          case 0: out += "t(fun() { var a = " + source(objs) + "; a = " + source(objs) + "; }().value()); "; break;
          case 1: out += "var " + z + " = fun() { var a = Tracked(" + num() + "); a = Tracked(" + num() + ") }(); by_cref(" + z + "); t(" + z + ".value()); "; objs.push_back(z); break;
          default: out += "var " + z + " = fun(p) { var a = Tracked(" + num() + "); if (p) { a = Tracked(" + num() + ") } }(true); by_cref(" + z + "); "; break;
          }
          break;
        }
        case 33: {
          // a getter returning `const shared_ptr<T> &`: what the script keeps shares ownership, so it survives the
          // owner replacing its part (or dying)
          const std::string po = nm("po");
          const std::string pp = nm("pp");
          switch (rng.below(3)) {
          case 0: out += "var " + po + " = PartOwner(" + num() + "); var " + pp + " = " + po + ".part(); " + po + ".replace_part(" + num() + "); by_cref(" + pp + "); t(" + pp + ".value()); t(" + po + ".part().value()); "; break;
          case 1: out += "var " + pp + " = fun() { var " + po + " = PartOwner(" + num() + "); return " + po + ".part() }(); by_cref(" + pp + "); t(" + pp + ".value()); "; break;
          default: out += "var " + po + " = PartOwner(" + num() + "); var " + pp + " = [" + po + ".part()]; " + po + ".replace_part(" + num() + "); by_ref(" + pp + "[0]); keep(" + pp + "[0]); "; break;
          }
          break;
        }
        case 25: {
          // a const derived object held by shared_ptr, converted to its base through a typed script
          // parameter; the converted value outlives the call and the temporary it came from
          const std::string kb = nm("kb");
          switch (rng.below(3)) {
          case 0: out += "var " + kb + " = as_base(make_const_derived(" + num() + ")); by_cref(" + kb + "); t(" + kb + ".value()); "; break;
          case 1: out += "var " + kb + " = fun(Tracked b) { return fun[b]() { return by_cref(b) } }(make_const_derived(" + num() + ")); " + kb + "(); "; break;
          default: out += "keep_value(as_base(make_const_derived(" + num() + "))); "; break;
          }
          break;
        }
        case 22: {
          // a C++ function that returns a reference to its (temporary / converted / variable) argument;
          // the result is used later in the same statement or returned implicitly from a script function
          std::string arg;
          switch (rng.below(objs.empty() ? 3 : 4)) {
          case 0: arg = "Tracked(" + num() + ")"; break;
          case 1: arg = "TSource(" + num() + ")"; break;
          case 2: arg = "make_value(" + num() + ")"; break;
          default: arg = rng.pick(objs); break;
          }
          switch (rng.below(4)) {
          case 0: out += "t(same(" + arg + ").value()); "; break;
          case 1: out += "by_cref(same(" + arg + ")); "; break;
          case 2: out += "t(mkref(" + num() + ").value()); "; break;
          default: out += "t(same(same(" + arg + ")).value() + same(" + arg + ").value()); "; break;
          }
          break;
        }
        default: {
          // a C++ function that calls back into script while it holds a reference to its argument
          // (a converted temporary, a plain temporary or a variable), and uses the argument afterwards
          static const char *cbs[] = {"fun() { var z = 1; to_string(z) }", "fun() { to_string(2) }", "fun() { by_cref(Tracked(3)) }", "fun() { var w = [Tracked(4)]; w.size() }"};
          std::string arg;
          switch (rng.below(objs.empty() ? 3 : 4)) {
          case 0: arg = "TSource(" + num() + ")"; break;
          case 1: arg = "Tracked(" + num() + ")"; break;
          case 2: arg = "TrackedDerived(" + num() + ")"; break;
          default: arg = rng.pick(objs); break;
          }
          // known finding C11-K1: a temporary made by a user conversion dies inside the call when the
          // callback evaluates a block that has a scope of its own (cbs[0], cbs[3]); that pairing is
          // listed in known_findings.json and not generated
          const bool converted = arg.rfind("TSource", 0) == 0;
          out += "with_cb(" + arg + ", " + (converted ? cbs[1 + rng.below(2)] : cbs[rng.below(4)]) + "); ";
          break;
        }
        }
      }
      if (sink && !out.empty()) {
        sink->push_back(out);
        out.clear();
      }
      return out;
    }
  };

  void reachable(const Boxed_Value &bv, Engine &e, std::set<int> &out, int depth = 0) {
    if (depth > 6 || bv.is_undef() || bv.is_null()) {
      return;
    }
    const Type_Info &ti = bv.get_type_info();
    try {
      if (ti.bare_equal(user_type<Tracked>()) || ti.bare_equal(user_type<TrackedDerived>())) {
        out.insert(e.boxed_cast<const Tracked &>(bv).id);
      } else if (ti.bare_equal(user_type<std::vector<Boxed_Value>>())) {
        for (auto &x : boxed_cast<const std::vector<Boxed_Value> &>(bv)) {
          reachable(x, e, out, depth + 1);
        }
      } else if (ti.bare_equal(user_type<std::map<std::string, Boxed_Value>>())) {
        for (auto &kv : boxed_cast<const std::map<std::string, Boxed_Value> &>(bv)) {
          reachable(kv.second, e, out, depth + 1);
        }
      } else if (ti.bare_equal(user_type<dispatch::Dynamic_Object>())) {
        for (auto &kv : boxed_cast<const dispatch::Dynamic_Object &>(bv).get_attrs()) {
          reachable(kv.second, e, out, depth + 1);
        }
      } else if (ti.bare_equal(user_type<PartOwner>())) {
        const PartOwner &o = boxed_cast<const PartOwner &>(bv);
        if (o.part) {
          out.insert(o.part->id);
        }
      } else if (ti.bare_equal(user_type<Holder>())) {
        const Holder &h = boxed_cast<const Holder &>(bv);
        if (h.p) {
          out.insert(h.p->id);
        }
      }
    } catch (...) {
    }
  }

  std::string set_str(const std::set<int> &s) {
    std::string o;
    for (int x : s) {
      o += std::to_string(x) + " ";
    }
    return o;
  }

  // plans hold the outermost statements as a list (shrinkable); older replay files hold "program"
  std::string program_text(const J &plan) {
    if (plan.has("program")) {
      return plan.at("program").str();
    }
    std::string body;
    for (size_t i = 0; i < plan.at("stmts").size(); ++i) {
      body += plan.at("stmts")[i].str();
    }
    return "fun() { " + body + plan.at("tail").str() + " }()";
  }

  struct Once {
    std::string rule, detail, outcome;
    int ctor_calls = 0;
    bool fired = false;
  };

  Once run_once(const J &plan, int fault_at, bool script_throw) {
    Once res;
    Registry reg;
    g_reg = &reg;
    {
      std::vector<std::shared_ptr<Tracked>> holders;
      std::vector<Holder> holder_objs;
      std::vector<Boxed_Value> kept_values; // script values the host keeps (boxed)
      std::vector<int> trace;
      Tracked cpp_owned(4242); // a C++ object the script only ever sees by reference (not created on its behalf)
      const int cpp_owned_id = cpp_owned.id;
      reg.ctor_calls = 0;      // constructor calls are counted from the script's first one
      reg.fault_at = fault_at;
      std::set<int> reach;
      {
        auto chai = make_engine();
        Engine &e = *chai;
        e.add(user_type<Tracked>(), "Tracked");
        e.add(constructor<Tracked(int)>(), "Tracked");
        e.add(constructor<Tracked(const Tracked &)>(), "Tracked");
        e.add(fun([](const Tracked &t) { return Tracked(t); }), "clone");
        e.add(fun([](const TrackedDerived &t) { return TrackedDerived(t); }), "clone");
        e.add(fun(&Tracked::value), "value");
        e.add(fun(&Tracked::set_value), "set_value");
        e.add(fun([](Tracked &a, const Tracked &b) -> Tracked & { return a = b; }), "=");
        e.add(user_type<TrackedDerived>(), "TrackedDerived");
        e.add(constructor<TrackedDerived(int)>(), "TrackedDerived");
        e.add(constructor<TrackedDerived(const TrackedDerived &)>(), "TrackedDerived");
        e.add(base_class<Tracked, TrackedDerived>());
        e.add(user_type<TSource>(), "TSource");
        e.add(fun([](int v) { return TSource{v}; }), "TSource");
        e.add(type_conversion<TSource, Tracked>([](const TSource &s) { return Tracked(s.v); }));
        e.add(user_type<Holder>(), "Holder");
        e.add(fun([](const std::shared_ptr<Tracked> &p) { return Holder{p}; }), "Holder");
        e.add(fun([](Tracked t) { return t.value(); }), "by_value");
        e.add(fun([](const Tracked &t) { return t.value(); }), "by_cref");
        e.add(fun([](Tracked &t) { return t.value(); }), "by_ref");
        e.add(fun([](Tracked *t) { return t ? t->value() : -1; }), "by_ptr");
        e.add(fun([](const Tracked *t) { return t ? t->value() : -1; }), "by_cptr");
        e.add(fun([](const std::shared_ptr<Tracked> &t) { return t ? t->value() : -1; }), "by_shared");
        e.add(fun([](const Tracked &t) { return t.value(); }), "takes_derived_as_base");
        e.add(fun([](int v) { return Tracked(v); }), "make_value");
        e.add(fun([](int v) { return std::make_shared<Tracked>(v); }), "make_shared_t");
        e.add(fun([](int v) { return std::make_unique<Tracked>(v); }), "make_unique_t");
        e.add(fun([&holders](const std::shared_ptr<Tracked> &p) { holders.push_back(p); }), "keep");
        e.add(fun([&holder_objs](const Holder &h) { holder_objs.push_back(h); }), "keep_holder");
        e.add(fun([&cpp_owned]() -> Tracked & { return cpp_owned; }), "held_ref");
        e.add(fun([&trace](int v) { trace.push_back(v); }), "t");
        e.add(fun([](const Tracked &t, const std::function<void()> &cb) {
                const int before = t.value();
                cb();
                return before + t.value(); // the argument must still be alive after the callback returned
              }),
              "with_cb");
        e.add(fun([](const std::shared_ptr<Tracked> &p, const std::function<void()> &cb) {
                const int before = p->value();
                cb();
                return before + p->value(); // the parameter must still own the object it was given
              }),
              "with_cb_sp");
        e.eval("def rebind(a, b) { a := b }");
        e.add(fun([script_throw]() { return script_throw; }), "flag");
        e.add(fun([](const Tracked &t) -> const Tracked & {
                (void)t.value();
                return t;
              }),
              "same");
        e.eval("def mk(n) { var tmp = Tracked(n); tmp.set_value(n + 1); return tmp }");
        e.eval("def mkref(n) { same(Tracked(n)) }");
        e.add(fun([](int v) { return std::shared_ptr<const TrackedDerived>(std::make_shared<TrackedDerived>(v)); }), "make_const_derived");
        e.add(fun([&kept_values](const Boxed_Value &bv) { kept_values.push_back(bv); }), "keep_value");
        e.eval("def as_base(Tracked b) { return b }");
        e.add(fun([](std::shared_ptr<Tracked> &p, int v) { p = std::make_shared<Tracked>(v); }), "reseat");
        e.add(fun([](const std::function<void(Tracked)> &f, int v) { f(Tracked(v)); }), "call_with_value");
        e.add(user_type<PartOwner>(), "PartOwner");
        e.add(fun([](int v) { return PartOwner{std::make_shared<Tracked>(v)}; }), "PartOwner");
        e.add(fun([](const PartOwner &o) -> const std::shared_ptr<Tracked> & { return o.part; }), "part");
        e.add(fun([](PartOwner &o, int v) { o.part = std::make_shared<Tracked>(v); }), "replace_part");
        // (only used by the known-finding replay C11-K4: a non-owning reference into the owner)
        e.add(fun([](const PartOwner &o) -> const Tracked & { return *o.part; }), "part_ref");
        e.add(fun([](int v) { return std::shared_ptr<Tracked>(std::make_shared<TrackedDerived>(v)); }), "make_derived_as_base");
        e.add(fun([](const TrackedDerived &d) { return d.value(); }), "takes_derived");
        e.add(fun([](const Tracked &t) -> const Tracked * {
                (void)t.value();
                return &t;
              }),
              "peek");
        e.add(fun([](Tracked &t) -> Tracked * {
                (void)t.value();
                return &t;
              }),
              "peek_mut");
        e.add(fun([](Tracked &t, double f) -> double {
                (void)t.value();
                throw std::runtime_error("scale_throw " + std::to_string(f));
              }),
              "scale_throw");

        Boxed_Value result;
        try {
          result = e.eval(program_text(plan));
          res.outcome = "returned";
        } catch (...) {
          res.outcome = "!" + describe_current_exception(&e);
        }
        if (plan.has("host_call") && plan.at("host_call").truthy()) {
          // the host calls a registered function through a std::function it got from the engine, from plain C++ (no
          // script call is active), with an argument that needs the user conversion: the converted temporary must
          // live until the callee has returned - and no longer
          try {
            auto f = e.eval<std::function<int(TSource)>>("by_cref");
            (void)f(TSource{77});
            auto g = e.eval<std::function<int(TSource)>>("fun(Tracked t) { return by_cref(t) + by_value(t) }");
            (void)g(TSource{78});
          } catch (...) {
          }
        }
        // quiescence: one evaluation with a function call flushes the conversion saves
        try {
          e.eval("to_string(0)");
        } catch (...) {
        }
        // reachable set: C++ holders, globals, the eval result
        for (auto &h : holders) {
          if (h) {
            reach.insert(h->id);
          }
        }
        for (auto &h : holder_objs) {
          if (h.p) {
            reach.insert(h.p->id);
          }
        }
        for (auto &kv : kept_values) {
          reachable(kv, e, reach);
          try {
            (void)e.boxed_cast<const Tracked &>(kv).value(); // still usable
          } catch (const exception::bad_boxed_cast &) {
          }
        }
        for (const char *gname : {"G0", "G1"}) {
          try {
            reachable(e.eval(gname), e, reach);
          } catch (...) {
          }
        }
        reachable(result, e, reach);
        reach.insert(cpp_owned_id);
        std::set<int> live = reg.live();
        if (live != reach && res.rule.empty()) {
          std::set<int> leaked, dead;
          for (int x : live) {
            if (!reach.count(x)) leaked.insert(x);
          }
          for (int x : reach) {
            if (!live.count(x)) dead.insert(x);
          }
          if (!dead.empty()) {
            res.rule = "destroyed-while-still-referred-to";
            res.detail = "instances " + set_str(dead) + "are reachable from a C++ holder / global / eval result but already destroyed";
          } else {
            res.rule = "alive-after-last-referrer-gone";
            res.detail = "instances " + set_str(leaked) + "are still alive at quiescence although nothing refers to them (outcome " + res.outcome + ")";
          }
        }
        // everything reachable must still be usable
        for (auto &h : holders) {
          if (h) {
            (void)h->value();
          }
        }
        result = Boxed_Value();
        // the engine dies here while C++ still holds shared_ptrs
      }
      for (auto &h : holders) {
        if (h) {
          (void)h->value();
        }
      }
      holders.clear();
      holder_objs.clear();
      kept_values.clear();
      std::set<int> live = reg.live();
      live.erase(cpp_owned_id);
      if (!live.empty() && res.rule.empty()) {
        res.rule = "alive-after-engine-destruction";
        res.detail = "instances " + set_str(live) + "survive the engine and every C++ holder";
      }
    }
    if (!reg.problems.empty() && res.rule.empty()) {
      res.rule = reg.problems[0].find("twice") != std::string::npos ? "destroyed-twice" : "use-after-destroy";
      res.detail = reg.problems[0];
    }
    res.ctor_calls = reg.ctor_calls;
    res.fired = reg.fired;
    g_reg = nullptr;
    return res;
  }

  class C11 : public World {
  public:
    const char *id() const override { return "C11"; }

    J generate(uint64_t run_seed, const std::string &tier) override {
      Rng plan(mix(run_seed, 1)), faults(mix(run_seed, 2));
      const bool thorough = tier == "thorough";
      Gen g(plan);
      J p = J::object();
      std::vector<std::string> top;
      g.block(int(plan.range(1, thorough ? 4 : 3)), {}, {}, thorough ? 10 : 7, &top);
      J stmts = J::array();
      for (auto &st : top) {
        stmts.push(J(st));
      }
      // what the whole program evaluates to (may let instances escape through the result)
      static const char *tails[] = {"return 0", "return Tracked(5)", "return [Tracked(6), make_value(7)]", "return mk(8)", "var last = Dynamic_Object(); last.item = Tracked(9); return last"};
      p["stmts"] = stmts;
      p["tail"] = J(tails[plan.below(5)]);
      p["sample_seed"] = J(static_cast<unsigned long long>(faults.next() >> 1));
      p["host_call"] = J(plan.chance(400));
      J sh = J::array();
      sh.push(J("stmts"));
      p["shrinkable"] = sh;
      return p;
    }

    RunResult execute(const J &plan) override {
      warm_up();
      RunResult r;
      uint64_t h = 0xcbf29ce484222325ULL;
      r.evals = 0;
      auto one = [&](int fault_at, bool script_throw) -> bool {
        Once o = run_once(plan, fault_at, script_throw);
        ++r.evals;
        h = fnv1a(o.outcome, h) * 31 + uint64_t(fault_at);
        if (o.fired) {
          r.counters["fault_constructor_throw"] += 1;
          ++r.distinct_extra;
        }
        if (script_throw) {
          r.counters["fault_script_throw"] += 1;
        }
        if (o.outcome != "returned") {
          r.counters["probe_scope_left_by_exception"] += 1;
        }
        if (fault_at == 0 && !script_throw) {
          r.counters[o.outcome == "returned" ? "fault_free_program_returned" : "fault_free_program_raised"] += 1;
        }
        if (!o.rule.empty()) {
          r.fail(o.rule, (fault_at ? "constructor call " + std::to_string(fault_at) + " throws: " : (script_throw ? std::string("script throw: ") : std::string("fault-free: "))) + o.detail
                             + "; program: " + program_text(plan));
          J only = J::object();
          only["fault_at"] = J(fault_at);
          only["script_throw"] = J(script_throw);
          r.plan_patch = J::object();
          r.plan_patch["only"] = only;
          return false;
        }
        last_ctor_calls_ = o.ctor_calls;
        return true;
      };
      if (plan.has("only")) {
        one(int(plan.at("only").at("fault_at").num()), plan.at("only").at("script_throw").truthy());
        r.event_hash = h;
        r.nontrivial = true;
        r.distinct_key = h;
        return r;
      }
      bool ok = one(0, false);
      const int n = last_ctor_calls_;
      r.counters["programs"] += 1;
      r.counters["constructor_calls_fault_free"] += n;
      if (ok) {
        ok = one(0, true);
      }
      if (ok) {
        std::vector<int> ks;
        for (int k = 1; k <= n; ++k) {
          ks.push_back(k);
        }
        if (n > 40) {
          Rng pick(plan.at("sample_seed").unum(1));
          for (size_t i = 0; i < 8; ++i) {
            std::swap(ks[i], ks[i + size_t(pick.below(ks.size() - i))]);
          }
          ks.resize(8);
          r.counters["programs_sampled_not_enumerated"] += 1;
        } else {
          r.counters["programs_fully_enumerated"] += 1;
        }
        for (size_t i = 0; ok && i < ks.size(); ++i) {
          ok = one(ks[i], false);
        }
      }
      r.event_hash = h;
      r.nontrivial = true;
      r.distinct_key = fnv1a(program_text(plan));
      return r;
    }

  private:
    int last_ctor_calls_ = 0;
  };

  C11 g_c11;
  RegisterWorld reg_c11(&g_c11);
} // namespace
