// World C09 — every evaluation leaves the engine's scope / call stacks as it found them.
//
// System under simulation: one engine, one caller (the main thread, or a worker thread in half the
// plans since the state is per-thread).  A plan is a generated program (nested blocks, functions,
// lambdas, methods, attribute-held functions, loops, switch, try/catch/finally, container
// callbacks, bind, C++ -> script std::function trampolines, conversion-needing calls, eval()) with
// fault-capable callbacks cb(K) at every level and script-level `throw` and early `return` sites.
// Fault ENUMERATION: the program is run once fault-free to record every callback invocation
// (site K, occurrence j); then every (K, j) x every exception kind, every script throw site and
// every early-return site (in a function: leaves the function; at top level: ends the evaluation),
// is executed as its own run on a fresh engine.  The host enters through eval(), eval<int>(),
// eval<std::string>() or eval() with an exception_specification.
// Oracle after every eval (returned or thrown): H3 stack shape equals the pre-call shape
// (stacks, scopes, call_params, call_params.back, call_depth, saves enabled); get_locals() is
// exactly the set of top-level variables whose declaration completed; a fixed follow-up script
// gives the pristine-engine answer.
#include "simworld.hpp"

#include <set>

using namespace verif;
using namespace chaiscript;

namespace {

  struct UserExc {
    int code;
  };
  struct Base9 {
    virtual ~Base9() = default;
    int v = 0;
  };
  struct Derived9 : Base9 {};
  // a C++ value type whose registered == re-enters the engine: switch/case calls == through a dispatch that opens no call frame
  struct HE9 {
    int mode = 0, site = 0;
  };

  constexpr int N_KINDS = 10;
  const char *kind_names[N_KINDS] = {"runtime_error", "out_of_range", "logic_error", "eval_error", "Boxed_Value", "user_class", "int",
                                     "bad_boxed_cast", "arity_error", "guard_error"};

  [[noreturn]] void throw_kind(int kind) {
    switch (kind) {
    case 0: throw std::runtime_error("injected");
    case 1: throw std::out_of_range("injected");
    case 2: throw std::logic_error("injected");
    case 3: throw exception::eval_error("injected");
    case 4: throw Boxed_Value(4711);
    case 5: throw UserExc{5};
    case 6: throw 6;
    case 7: throw exception::bad_boxed_cast(utility::Static_String("injected"));
    case 8: throw exception::arity_error(1, 2);
    default: throw exception::guard_error();
    }
  }

  // ------------------------------------------------------------------ program generator
  struct Gen {
    Rng &rng;
    int next_site = 1, next_flag = 1, next_name = 0, next_decl = 1;
    int n_funcs = 0, n_classes = 0;
    int sub_engines_left = 0; // calls of sub_engine() this program may still contain (each costs an engine construction)
    bool has_pre_engine = false;
    std::vector<std::string> *decl_sink = nullptr; // names a top-level helper statement declares at top level
    explicit Gen(Rng &r) : rng(r) {}
    std::string cb() { return "cb(" + std::to_string(next_site++) + ")"; }
    std::string name(const char *p) { return std::string(p) + std::to_string(next_name++); }

    std::string expr(int d) {
      const int k = int(rng.below(d <= 0 ? 3 : 19));
      switch (k) {
      case 16:
      case 17: {
        // the host re-enters the engine from inside a registered function: chai.eval() of a small script that
        // succeeds, throws, does not parse or fails deep inside a lambda; the host swallows the failure (modes
        // 0-3) or lets it travel on (mode 4).  eval must give back the shape it was ENTERED with, whatever that was.
        const int mode = int(rng.below(5));
        const std::string site = std::to_string(next_site++);
        return "host_eval(" + std::to_string(mode) + ", " + site + ")";
      }
      case 18:
        // a second engine is built, used and destroyed on this thread while the evaluation is in progress
        // (mode 0), or an engine built on this thread BEFORE the evaluating one is destroyed now (mode 1)
        if (sub_engines_left > 0) {
          --sub_engines_left;
          return "sub_engine(" + std::to_string(has_pre_engine && rng.chance(500) ? 1 : 0) + ")";
        }
        return cb();
      case 0:
      case 1:
        return cb();
      case 2:
        return "(" + cb() + " + " + cb() + ")";
      case 3:
        return "(" + cb() + " + " + expr(d - 1) + ")";
      case 4:
        if (n_funcs > 0) {
          return "f" + std::to_string(rng.below(uint64_t(n_funcs))) + "(" + expr(d - 1) + ")";
        }
        return cb();
      case 5:
        return "fun(a) { " + stmts(d - 1, 2) + "return a + " + cb() + " }(" + expr(d - 1) + ")";
      case 6:
        if (n_classes > 0) {
          return "C" + std::to_string(rng.below(uint64_t(n_classes))) + "(" + cb() + ").m(" + expr(d - 1) + ")";
        }
        return cb();
      case 7:
        return "call_cpp(fun(a) { " + stmts(d - 1, 1) + "a + " + cb() + " }, " + expr(d - 1) + ")";
      case 8:
        return "takes_base(make_derived(" + cb() + "))";
      case 9:
        return "eval(\"" + cb() + " + " + cb() + "\")";
      case 10:
        if (n_funcs > 0) {
          return "bind(f" + std::to_string(rng.below(uint64_t(n_funcs))) + ", _)(" + expr(d - 1) + ")";
        }
        return cb();
      case 11:
        return "foldl([" + cb() + ", " + cb() + "], fun(a, b) { a + b + " + cb() + " }, 0)";
      case 12: {
        const std::string o = name("o");
        return "fun() { var " + o + " = Dynamic_Object(); " + o + ".f = fun(x) { " + stmts(d - 1, 1) + "x + " + cb() + " }; return " + o + ".f(" + expr(d - 1) + ") }()";
      }
      case 13:
        return "(" + cb() + " > 0 ? " + expr(d - 1) + " : " + cb() + ")";
      case 14:
        return "((" + cb() + " > 0 && " + cb() + " > 0) ? 1 : 0)";
      default:
        return "map([1, 2], fun(x) { x + " + cb() + " }).size()";
      }
    }

    std::string stmts(int d, int max_n) {
      std::string out;
      const int n = int(rng.range(0, max_n));
      for (int i = 0; i < n; ++i) {
        out += stmt(d) + " ";
      }
      return out;
    }

    std::string stmt(int d, bool top = false) {
      const int k = int(rng.below(d <= 0 ? 3 : 21));
      switch (k) {
      case 0:
        return expr(d) + ";";
      case 1: {
        const std::string t = name("t");
        if (top && decl_sink) {
          decl_sink->push_back(t);
        }
        return "var " + t + " = " + expr(d) + ";";
      }
      case 2: {
        const int f = next_flag++;
        if (rng.chance(350)) {
          // an early `return`: leaves the enclosing function, or at top level the whole evaluation, through
          // every scope opened since
          return "if (rflag(" + std::to_string(f) + ")) { return " + std::to_string(2000 + f) + " };";
        }
        return "if (flag(" + std::to_string(f) + ")) { throw(" + std::to_string(1000 + f) + ") };";
      }
      case 3:
        return "{ var " + name("b") + " = " + cb() + "; " + stmts(d - 1, 2) + "}";
      case 4:
        return "if (" + expr(d - 1) + " >= 0) { " + stmts(d - 1, 2) + "} else { " + stmts(d - 1, 1) + "}";
      case 5: {
        const std::string i = name("i");
        const char *ctl = rng.chance(300) ? "break" : (rng.chance(400) ? "continue" : "");
        return "for (var " + i + " = 0; " + i + " < 2; ++" + i + ") { " + stmts(d - 1, 2) + (ctl[0] ? "if (" + i + " == 0) { " + ctl + " } " : std::string()) + stmts(d - 1, 1) + "}";
      }
      case 6: {
        // non-optimised for loop: callbacks in the initialiser, the condition and the increment
        const std::string i = name("j");
        const std::string init = cb() + " - " + std::to_string(next_site - 1);
        const std::string cond = rng.chance(600) ? "(" + cb() + " > 0 && " + i + " < 2)" : i + " < 2";
        const std::string inc = rng.chance(400) ? i + " += " + cb() + " / " + std::to_string(next_site - 1) : "++" + i;
        return "for (var " + i + " = " + init + "; " + cond + "; " + inc + ") { " + stmts(d - 1, 2) + "}";
      }
      case 7: {
        const std::string w = name("w");
        if (top && decl_sink) {
          decl_sink->push_back(w);
        }
        const std::string cond = rng.chance(600) ? "(" + cb() + " > 0 && " + w + " < 2)" : w + " < 2";
        return "var " + w + " = 0; while (" + cond + ") { ++" + w + "; " + stmts(d - 1, 2) + (rng.chance(300) ? "if (" + w + " == 1) { continue }; " : "") + "}";
      }
      case 8:
        return "for (" + name("x") + " : [1, 2]) { " + stmts(d - 1, 2) + "}";
      case 9: {
        const std::string site = cb();
        const int lit = next_site - 1;
        return "switch (" + site + ") { case (" + std::to_string(lit) + ") { " + stmts(d - 1, 2) + (rng.chance(500) ? "break; " : "") + "} case (0) { " + cb() + "; } default { " + stmts(d - 1, 1) + "} }";
      }
      case 10: {
        std::string s = "try { " + stmts(d - 1, 2) + "} ";
        const int form = int(rng.below(4));
        if (form != 3) {
          s += "catch (e) { " + stmts(d - 1, 1) + "} ";
        }
        if (form >= 2) {
          s += "finally { " + stmts(d - 1, 1) + "} ";
        }
        if (form == 1) {
          s = "try { " + stmts(d - 1, 2) + "} catch (int e) { " + cb() + "; } catch (e) { " + stmts(d - 1, 1) + "} ";
        }
        return s;
      }
      case 11:
        return "for_each([1, 2], fun(x) { " + stmts(d - 1, 2) + "});";
      case 12:
        // now and then a recursion far deeper than any other nesting in the program
        return "rec(" + std::to_string(rng.chance(60) ? rng.range(520, 640) : rng.range(0, 3)) + ");";
      case 17:
      case 18: {
        // a declaration made by the host (a registered C++ function calling add(var(..), name)) or by a nested
        // eval("var ..") while the script is running: it lands in whatever scope is current at that moment
        const int id = next_decl++;
        const bool by_eval = rng.chance(400);
        const std::string nm = (by_eval ? "ev" : "hd") + std::to_string(id);
        const std::string call = by_eval ? "eval(\"var " + nm + " = " + std::to_string(id) + "\");" : "host_declare(" + std::to_string(id) + ");";
        const std::string o = name("ho");
        // (the native function is held in an attribute; the int- and the string-taking form are dispatched differently)
        const std::string via_attr = rng.chance(500) ? "var " + o + " = Dynamic_Object(); " + o + ".hd = host_declare; " + o + ".hd(" + std::to_string(id) + ");"
                                                     : "var " + o + " = Dynamic_Object(); " + o + ".hd = host_declare_named; " + o + ".hd(\"hd" + std::to_string(id) + "\");";
        if (top && decl_sink) {
          if (rng.chance(500)) {
            decl_sink->push_back(nm); // directly at top level: a top-level declaration like any other
            return call;
          }
          decl_sink->push_back(o); // through an attribute-held native function: only the object itself stays
          return by_eval ? "var " + o + " = 0; { var pad = 0; " + call + " }" : via_attr;
        }
        switch (rng.below(3)) {
        case 0: return "{ var " + name("pad") + " = 0; " + call + " }";
        case 1: return "fun() { " + call + " }();";
        default: return "{ " + via_attr + " }";
        }
      }
      case 16: {
        // calls whose argument binding fails (a capture named like a parameter, a repeated parameter
        // name): the error is raised while the callee's frame is being set up
        const std::string q = name("q");
        switch (rng.below(3)) {
        case 0: return "try { var " + q + " = " + cb() + "; fun[" + q + "](" + q + ") { " + q + " }(2); } catch (e) { " + cb() + "; }";
        case 1: return "try { dup_params(" + cb() + ", 2); } catch (e) { " + cb() + "; }";
        default: return "dup_params(1, " + cb() + ");";
        }
      }
      case 19:
      case 20: {
        // switch over a C++ value whose == re-enters the engine (host_eval modes): the comparison is dispatched by the
        // switch statement itself, without a call frame, so at top level it runs with call depth 0 and scopes open
        const int mode = int(rng.below(5));
        const std::string site = std::to_string(next_site++);
        const std::string sw = "switch (make_he(" + std::to_string(mode) + ", " + site + ")) { case (make_he(0, 0)) { " + stmts(d - 1, 2) + "} default { " + cb() + "; } }";
        switch (rng.below(3)) {
        case 0: return "{ var " + name("pad") + " = " + cb() + "; " + sw + " }";
        case 1: return "for (var " + name("i") + " = 0; " + "true; ) { var " + name("pad") + " = 0; " + sw + " break; }";
        default: return sw;
        }
      }
      case 14:
        return ifdecl(d);
      case 15:
        return "{ " + stmts(d - 1, 3) + "}"; // a block with no declaration of its own
      default:
        return "return_early(" + cb() + ");";
      }
    }

    // declaration inside an if condition / if initialiser, in a block that declares nothing else
    std::string ifdecl(int d) {
      {
        const std::string x = name("c");
        const std::string head = rng.chance(500) ? "if (var " + x + " = " + cb() + " > 0) " : "if (var " + x + " = " + cb() + "; " + x + " > 0) ";
        const std::string inner = head + "{ " + stmts(d - 1, 2) + "} ";
        switch (rng.below(3)) {
        case 0: return "{ " + inner + "}";
        case 1: return "for (var " + name("i") + " = 0; " + "true; ) { " + inner + "break; }";
        default: return "for (" + name("x") + " : [1, 2]) { " + inner + "}";
        }
      }
    }

  };

  J gen_program(Rng &rng, bool thorough) {
    Gen g(rng);
    J p = J::object();
    J &defs = p["defs"];
    defs = J::array();
    const int depth = int(rng.range(1, thorough ? 4 : 3));
    if (rng.chance(120)) {
      g.sub_engines_left = int(rng.range(1, 2));
      g.has_pre_engine = rng.chance(500);
    }
    defs.push(J("def rec(n) { if (n <= 0) { return " + g.cb() + " }; return rec(n - 1) + 1 }"));
    defs.push(J("def return_early(a) { if (a > 0) { return a }; " + g.cb() + "; return 0 }"));
    defs.push(J("def dup_params(a, a) { return a }"));
    const int nf = int(rng.range(0, 3));
    for (int i = 0; i < nf; ++i) {
      defs.push(J("def f" + std::to_string(i) + "(a) { " + g.stmts(depth - 1, 2) + "return a + " + g.cb() + " }"));
      g.n_funcs = i + 1;
    }
    const int nc = int(rng.range(0, 2));
    for (int i = 0; i < nc; ++i) {
      const std::string c = "C" + std::to_string(i);
      defs.push(J("class " + c + " { var v; def " + c + "(x) { this.v = x + " + g.cb() + " }; def m(a) { " + g.stmts(depth - 1, 2) + "return this.v + a + " + g.cb() + " } }"));
      g.n_classes = i + 1;
    }
    J &stmts = p["stmts"];
    stmts = J::array();
    const int ns = int(rng.range(1, thorough ? 6 : 4));
    for (int i = 0; i < ns; ++i) {
      std::string s;
      std::vector<std::string> helpers;
      if (rng.chance(300)) {
        g.decl_sink = &helpers;
        s = g.stmt(depth, true) + " ";
        g.decl_sink = nullptr;
      } else if (rng.chance(200)) {
        s = g.ifdecl(depth) + " "; // directly at top level: a leaked declaration shows up in get_locals()
      }
      if (i == ns - 1 && g.sub_engines_left > 0) {
        // the program was chosen to meet other engines and no expression has drawn one yet: a directed statement
        --g.sub_engines_left;
        s += "fun(a) { var k = " + g.cb() + "; { var inner = k; return sub_engine(" + std::to_string(g.has_pre_engine ? 1 : 0) + ") + inner + " + g.cb() + " } }(1); ";
      }
      s += "var v" + std::to_string(i) + " = " + g.expr(depth) + "; mark(" + std::to_string(i) + ");";
      J st = J::object();
      st["s"] = J(s);
      st["i"] = J(i);
      J &hl = st["helpers"];
      hl = J::array();
      for (auto &hname : helpers) {
        hl.push(J(hname));
      }
      stmts.push(std::move(st));
    }
    // evaluation in 1..3 chunks (sequence of eval calls on the same engine)
    p["chunks"] = J(int(rng.range(1, 3)));
    p["pre_engine"] = J(g.has_pre_engine);
    return p;
  }

  // ------------------------------------------------------------------ execution of one crash point
  struct Fault {
    int type = 0; // 0 none, 1 cb throws, 2 flag: script throw, 3 rflag: script return
    int site = 0, occ = 0, kind = 0;
  };

  struct Exec {
    std::vector<std::pair<int, int>> cb_calls;   // (site, occurrence)
    std::vector<std::pair<int, int>> flag_calls; // (flag, occurrence)
    std::vector<std::pair<int, int>> rflag_calls; // (flag, occurrence) of return sites
    std::set<int> marks;
    bool fired = false;
    int reentries = 0, reentries_failed = 0, other_engines = 0; // reach probes
    std::string violation_rule, violation_detail;
    std::string outcome; // rendering of results / exceptions of every chunk
  };

  std::string shape_str(Engine &e) {
    auto s = e.verif_stack_shape();
    return "stacks=" + std::to_string(s.stacks) + " scopes=" + std::to_string(s.scopes_in_top_stack) + " call_params=" + std::to_string(s.call_params)
        + " call_params_back=" + std::to_string(s.call_params_back) + " call_depth=" + std::to_string(s.call_depth) + " saves_enabled=" + std::to_string(int(s.saves_enabled));
  }

  const char *FOLLOW_UP = "var zz_a = 3; def zz_f(x) { var q = x * 2; return q + 1 }; var zz_r = 0; for (var zi = 0; zi < 3; ++zi) { zz_r += zz_f(zi) }; "
                          "class ZZ { var a; def ZZ() { this.a = 5 }; def m(x) { this.a + x } }; zz_r + ZZ().m(zz_a)";

  void run_once(const J &plan, const Fault &f, Exec &x) {
    // an engine built (and used) on this thread before the evaluating one; a callback may destroy it mid-evaluation
    std::unique_ptr<Engine> pre;
    if (plan.has("pre_engine") && plan.at("pre_engine").truthy()) {
      pre = make_engine();
      pre->eval("global pre_a = 1; def pre_f(x) { x + pre_a }; pre_f(1)");
    }
    auto chai = make_engine();
    Engine &e = *chai;
    std::map<int, int> cb_occ, flag_occ;
    auto reenter = [&](int mode, int site) -> int {
            // re-entrant evaluation started by the host from inside a callback
            const std::string s = std::to_string(site);
            const char *inner[5] = {"cb(%) + 1", "{ var hz = cb(%); throw(hz) }", "cb(%) + ", "fun(a) { { var q = a; no_such_function_zz(cb(%) + q) } }(1)", "cb(%) + 1"};
            std::string script = inner[mode % 5];
            script.replace(script.find('%'), 1, s);
            // inside a running call the saved-parameter list of the current frame only ever grows (it is emptied when
            // the OUTERMOST call ends), so for a re-entrant eval it is compared as "did not shrink", everything else exactly
            auto shape_wo = [&](size_t &back) {
              auto sh = e.verif_stack_shape();
              back = size_t(sh.call_params_back);
              return "stacks=" + std::to_string(sh.stacks) + " scopes=" + std::to_string(sh.scopes_in_top_stack) + " call_params=" + std::to_string(sh.call_params)
                  + " call_depth=" + std::to_string(sh.call_depth) + " saves_enabled=" + std::to_string(int(sh.saves_enabled));
            };
            size_t back_before = 0;
            const std::string before = shape_wo(back_before);
            auto check = [&](const char *how) {
              size_t back_after = 0;
              std::string after = shape_wo(back_after);
              if (back_after < back_before) {
                after += " call_params_back shrank " + std::to_string(back_before) + "->" + std::to_string(back_after);
              }
              if (after != before && x.violation_rule.empty()) {
                x.violation_rule = "stack-shape-not-restored";
                x.violation_detail = std::string("re-entrant eval (host callback, mode ") + std::to_string(mode) + ") " + how + "; shape on entry: " + before + "; afterwards: " + after;
              }
            };
            int result = -1;
            ++x.reentries;
            try {
              result = e.eval<int>(script);
              check("returned");
            } catch (...) {
              ++x.reentries_failed;
              check("threw");
              if (mode % 5 == 4) {
                throw;
              }
            }
            return result;
          };
    e.add(fun([reenter](int mode, int site) -> int { return reenter(mode, site); }), "host_eval");
    e.add(user_type<HE9>(), "HE9");
    e.add(fun([](int mode, int site) { return HE9{mode, site}; }), "make_he");
    e.add(fun([reenter](const HE9 &a, const HE9 &) -> bool {
            reenter(a.mode, a.site);
            return true;
          }),
          "==");
    e.add(fun([&](int mode) -> int {
            ++x.other_engines;
            if (mode == 1) {
              if (pre) {
                pre.reset();
              }
              return 3;
            }
            auto sub = make_engine();
            return sub->eval<int>("global a = 1; def sf(x) { var t = x + a; t }; sf(2)");
          }),
          "sub_engine");
    e.add(fun([&](int k) -> int {
            sim_yield(7, nullptr);
            const int occ = ++cb_occ[k];
            x.cb_calls.emplace_back(k, occ);
            if (f.type == 1 && f.site == k && f.occ == occ) {
              x.fired = true;
              throw_kind(f.kind);
            }
            return k;
          }),
          "cb");
    e.add(fun([&](int k) -> bool {
            const int occ = ++flag_occ[k];
            x.flag_calls.emplace_back(k, occ);
            if (f.type == 2 && f.site == k && f.occ == occ) {
              x.fired = true;
              return true;
            }
            return false;
          }),
          "flag");
    e.add(fun([&](int k) -> bool {
            const int occ = ++flag_occ[k];
            x.rflag_calls.emplace_back(k, occ);
            if (f.type == 3 && f.site == k && f.occ == occ) {
              x.fired = true;
              return true;
            }
            return false;
          }),
          "rflag");
    e.add(fun([&](int n) { x.marks.insert(n); }), "mark");
    e.add(fun([&e](int n) { e.add(var(n), "hd" + std::to_string(n)); }), "host_declare");
    e.add(fun([&e](const std::string &n) { e.add(var(0), n); }), "host_declare_named");
    e.add(fun([](const std::function<int(int)> &fn, int v) { return fn(v); }), "call_cpp");
    e.add(fun([](int v) {
            Derived9 d;
            d.v = v;
            return d;
          }),
          "make_derived");
    e.add(fun([](const Base9 &b) { return b.v; }), "takes_base");
    e.add(base_class<Base9, Derived9>());

    const std::string base_shape = shape_str(e);
    if (base_shape != "stacks=1 scopes=1 call_params=1 call_params_back=0 call_depth=0 saves_enabled=0") {
      x.violation_rule = "fresh-engine-shape";
      x.violation_detail = base_shape;
      return;
    }
    // chunks
    std::vector<std::string> parts;
    for (size_t i = 0; i < plan.at("defs").size(); ++i) {
      parts.push_back(plan.at("defs")[i].str());
    }
    const size_t n_defs = parts.size();
    for (size_t i = 0; i < plan.at("stmts").size(); ++i) {
      parts.push_back(plan.at("stmts")[i].at("s").str());
    }
    const size_t chunks = size_t(std::max<int64_t>(1, plan.at("chunks").num(1)));
    const size_t n_stmts = parts.size() - n_defs;
    std::vector<std::string> scripts;
    {
      // defs always go with the first chunk
      size_t per = (n_stmts + chunks - 1) / chunks;
      if (per == 0) {
        per = 1;
      }
      std::string cur;
      for (size_t i = 0; i < n_defs; ++i) {
        cur += parts[i] + "\n";
      }
      size_t in_chunk = 0;
      for (size_t i = n_defs; i < parts.size(); ++i) {
        cur += parts[i] + "\n";
        if (++in_chunk == per) {
          scripts.push_back(cur);
          cur.clear();
          in_chunk = 0;
        }
      }
      if (!cur.empty() || scripts.empty()) {
        scripts.push_back(cur);
      }
    }
    for (size_t c = 0; c < scripts.size(); ++c) {
      const std::string before = shape_str(e);
      std::string out;
      try {
        // the host enters through eval(), eval<int>() or eval<std::string>() (the typed forms convert the
        // result and can fail with bad_boxed_cast after the evaluation itself succeeded)
        switch (plan.at("entry").num(0)) {
        case 1: out = "=int:" + std::to_string(e.eval<int>(scripts[c])); break;
        case 2: out = "=string:" + e.eval<std::string>(scripts[c]); break;
        case 3: out = "=" + show(e.eval(scripts[c], exception_specification<int, std::runtime_error>()), &e); break; // a thrown script value leaves through the handler
        default: out = "=" + show(e.eval(scripts[c]), &e); break;
        }
      } catch (const UserExc &) {
        out = "!user_class";
      } catch (...) {
        out = "!" + describe_current_exception(&e);
      }
      x.outcome += out + ";";
      const std::string after = shape_str(e);
      if (after != before && x.violation_rule.empty()) {
        x.violation_rule = "stack-shape-not-restored";
        x.violation_detail = "chunk " + std::to_string(c) + " ended with " + out + "; shape before: " + before + "; after: " + after;
      }
      // locals == completed top-level declarations
      std::string got, want;
      std::set<std::string> present;
      for (auto &kv : e.get_locals()) {
        got += kv.first + " ";
        present.insert(kv.first);
      }
      {
        // required: vN of every reached mark(N) and the top-level helper variables of that statement;
        // allowed in addition: top-level helper variables of a statement whose vN did not complete
        std::set<std::string> names;
        for (size_t si = 0; si < plan.at("stmts").size(); ++si) {
          const J &st = plan.at("stmts")[si];
          const bool marked = x.marks.count(int(st.at("i").num())) != 0;
          if (marked) {
            names.insert("v" + std::to_string(st.at("i").num()));
          }
          for (size_t hi = 0; hi < st.at("helpers").size(); ++hi) {
            const std::string hn = st.at("helpers")[hi].str();
            if (marked || present.count(hn)) {
              names.insert(hn);
            }
          }
        }
        for (auto &n : names) {
          want += n + " ";
        }
      }
      if (got != want && x.violation_rule.empty()) {
        x.violation_rule = "locals-differ-from-completed-declarations";
        x.violation_detail = "chunk " + std::to_string(c) + " ended with " + out + "; get_locals: " + got + "; completed top-level declarations: " + want;
      }
    }
    // engine evaluates subsequent scripts normally
    const std::string before = shape_str(e);
    const std::string fu = eval_show(e, FOLLOW_UP);
    if (fu != "=i:17" && x.violation_rule.empty()) {
      x.violation_rule = "follow-up-script-misbehaves";
      x.violation_detail = "after outcomes " + x.outcome + " the fixed follow-up script gave " + fu + " instead of =i:17";
    }
    const std::string after = shape_str(e);
    if (after != before && x.violation_rule.empty()) {
      x.violation_rule = "stack-shape-not-restored";
      x.violation_detail = "follow-up script; before: " + before + "; after: " + after;
    }
  }

  class C09 : public World {
  public:
    const char *id() const override { return "C09"; }

    J generate(uint64_t run_seed, const std::string &tier) override {
      Rng plan(mix(run_seed, 1)), faults(mix(run_seed, 2));
      const bool thorough = tier == "thorough";
      J p = gen_program(plan, thorough);
      p["on_worker"] = J(plan.chance(500));
      p["entry"] = J(int(plan.chance(550) ? 0 : plan.range(1, 3)));
      // which exception kinds are enumerated (all in thorough; a seeded subset of 4 in quick)
      J &kinds = p["kinds"];
      kinds = J::array();
      if (thorough) {
        for (int k = 0; k < N_KINDS; ++k) {
          kinds.push(J(k));
        }
      } else {
        std::set<int> ks;
        while (ks.size() < 4) {
          ks.insert(int(faults.below(N_KINDS)));
        }
        for (int k : ks) {
          kinds.push(J(k));
        }
      }
      p["max_points"] = J(thorough ? 120 : 60);
      p["sample_seed"] = J(static_cast<unsigned long long>(faults.next() >> 1));
      J sh = J::array();
      sh.push(J("stmts"));
      sh.push(J("defs"));
      p["shrinkable"] = sh;
      return p;
    }

    RunResult execute(const J &plan) override {
      warm_up();
      RunResult r;
      auto work = [&]() { enumerate(plan, r); };
      if (plan.at("on_worker").truthy()) {
        J serial = J::object();
        serial["mode"] = J("serial");
        serial["cap"] = J(4000000000000LL); // hundreds of engine constructions happen inside this one actor
        run_actors(serial, 1, [&](int) { work(); }, r);
      } else {
        work();
      }
      return r;
    }

  private:
    static void hash_exec(uint64_t &h, const Exec &x) {
      h = fnv1a(x.outcome, h);
      for (auto &c : x.cb_calls) {
        h = h * 1099511628211ULL + uint64_t(c.first) * 131 + uint64_t(c.second);
      }
      for (int m : x.marks) {
        h = h * 1099511628211ULL + uint64_t(m) + 7;
      }
    }

    void enumerate(const J &plan, RunResult &r) {
      uint64_t h = 0xcbf29ce484222325ULL;
      r.evals = 0;
      auto report = [&](const Exec &x, const Fault &f) {
        std::string where = f.type == 0 ? "fault-free" : (f.type == 1 ? "cb site " + std::to_string(f.site) + " occurrence " + std::to_string(f.occ) + " throws " + kind_names[f.kind]
                                                                       : std::string(f.type == 2 ? "script throw" : "script return") + " at flag " + std::to_string(f.site) + " occurrence " + std::to_string(f.occ));
        r.fail(x.violation_rule, where + ": " + x.violation_detail);
        J only = J::object();
        only["type"] = J(f.type);
        only["site"] = J(f.site);
        only["occ"] = J(f.occ);
        only["kind"] = J(f.kind);
        r.plan_patch = J::object();
        r.plan_patch["only"] = only;
      };
      if (plan.has("only")) {
        // replay of a single crash point
        const J &o = plan.at("only");
        Fault f;
        f.type = int(o.at("type").num());
        f.site = int(o.at("site").num());
        f.occ = int(o.at("occ").num());
        f.kind = int(o.at("kind").num());
        Exec x;
        run_once(plan, f, x);
        ++r.evals;
        hash_exec(h, x);
        if (!x.violation_rule.empty()) {
          report(x, f);
        }
        r.event_hash = h;
        r.nontrivial = x.fired;
        r.distinct_key = h;
        return;
      }
      Exec base;
      run_once(plan, Fault{}, base);
      ++r.evals;
      hash_exec(h, base);
      r.counters["programs"] += 1;
      r.counters["probe_reentrant_eval_from_callback"] += base.reentries;
      r.counters["probe_reentrant_eval_failed_and_was_handled_or_passed_on"] += base.reentries_failed;
      r.counters["probe_other_engine_built_or_destroyed_mid_evaluation"] += base.other_engines;
      r.counters["cb_invocations_fault_free"] += int64_t(base.cb_calls.size());
      if (!base.violation_rule.empty()) {
        report(base, Fault{});
        r.event_hash = h;
        return;
      }
      // crash points
      std::vector<Fault> points;
      for (auto &c : base.cb_calls) {
        for (size_t ki = 0; ki < plan.at("kinds").size(); ++ki) {
          Fault f;
          f.type = 1;
          f.site = c.first;
          f.occ = c.second;
          f.kind = int(plan.at("kinds")[ki].num()) % N_KINDS;
          points.push_back(f);
        }
      }
      for (auto &c : base.flag_calls) {
        Fault f;
        f.type = 2;
        f.site = c.first;
        f.occ = c.second;
        points.push_back(f);
      }
      for (auto &c : base.rflag_calls) {
        Fault f;
        f.type = 3;
        f.site = c.first;
        f.occ = c.second;
        points.push_back(f);
      }
      const size_t max_points = size_t(plan.at("max_points").num(60)) * std::max<size_t>(1, plan.at("kinds").size());
      if (points.size() > max_points) {
        // too many to enumerate: seeded sample without replacement
        Rng pick(plan.at("sample_seed").unum(1));
        for (size_t i = 0; i < max_points; ++i) {
          const size_t j = i + size_t(pick.below(points.size() - i));
          std::swap(points[i], points[j]);
        }
        points.resize(max_points);
        r.counters["programs_sampled_not_enumerated"] += 1;
      } else {
        r.counters["programs_fully_enumerated"] += 1;
      }
      for (const Fault &f : points) {
        Exec x;
        run_once(plan, f, x);
        ++r.evals;
        hash_exec(h, x);
        if (x.fired) {
          r.counters[f.type == 1 ? std::string("fault_throw_") + kind_names[f.kind] : std::string(f.type == 2 ? "fault_script_throw" : "fault_script_return")] += 1;
          ++r.distinct_extra;
        } else {
          r.counters["crash_point_not_reached"] += 1;
        }
        r.counters["probe_reentrant_eval_failed_and_was_handled_or_passed_on"] += x.reentries_failed;
        if (x.outcome.find('!') != std::string::npos) {
          r.counters["probe_exception_left_eval"] += 1;
        } else if (x.fired) {
          r.counters["probe_fault_absorbed_inside_script"] += 1;
        }
        if (!x.violation_rule.empty()) {
          report(x, f);
          break;
        }
      }
      r.event_hash = h;
      r.nontrivial = false; // every fired crash point is counted through distinct_extra
      r.distinct_key = h;
      r.counters["on_worker_thread"] += plan.at("on_worker").truthy() ? 1 : 0;
    }
  };

  C09 g_c09;
  RegisterWorld reg_c09(&g_c09);
} // namespace
