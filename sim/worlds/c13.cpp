// World C13 — one engine used from many threads at once.
//
// System under simulation: one real ChaiScript engine, T actor threads (real std::threads, one
// running at a time, switched by the seeded scheduler at every ChaiScript lock acquisition /
// release, at operation boundaries and inside harness callbacks).
// Oracles: per-operation expected results (equivalence to running alone), thread-local isolation,
// per-key linearizability of registry operations (functions, globals, conversions), final
// inventory (nothing lost), use() exactly once, no deadlock / bounded progress; data races and
// memory errors are reported by the tsan / asan flavour of the same run.
#include "simworld.hpp"

#include "filelayer.h"

#include <atomic>
#include <sys/stat.h>
#include <thread>

using namespace verif;
using namespace chaiscript;

namespace {

  struct Base {
    virtual ~Base() = default;
    int base_val() const { return 7; }
  };
  struct Derived : Base {};
  // types of the cross-thread callbacks: the conversion Derived -> Base is registered before the run starts
  struct CbBase {
    int v = 0;
    virtual ~CbBase() = default;
  };
  struct CbDerived : CbBase {};

  struct ConvA {
    int v;
  };
  struct ConvB {
    int v;
  };
  struct ConvC {
    int v;
  };

  // conversions 3 and 4 connect types that may already take part in other conversions (the number of convertible
  // TYPES does not change when they are registered) and are needed by calls that go through overload resolution:
  // an overloaded C++ function and a script function with a typed parameter
  constexpr int N_CONV = 5;
  const char *conv_expr[N_CONV] = {"takes_base(make_derived())", "takes_b(make_a(5))", "takes_c(make_b(8))", "takes_a2(make_c(4))", "takes_c_typed(make_a(2))"};
  const char *conv_expect[N_CONV] = {"=i:7", "=i:6", "=i:10", "=i:7", "=i:6"};

  Type_Conversion make_conv(int k) {
    switch (k) {
    case 0: return base_class<Base, Derived>();
    case 1: return type_conversion<ConvA, ConvB>([](const ConvA &a) { return ConvB{a.v + 1}; });
    case 2: return type_conversion<ConvB, ConvC>([](const ConvB &b) { return ConvC{b.v + 2}; });
    case 3: return type_conversion<ConvC, ConvA>([](const ConvC &c) { return ConvA{c.v + 3}; });
    default: return type_conversion<ConvA, ConvC>([](const ConvA &a) { return ConvC{a.v + 4}; });
    }
  }

  const char *ov_types[5] = {"int", "string", "bool", "Vector", "Map"};
  const char *ov_args[5] = {"1", "\"a\"", "true", "[1]", "[\"a\":1]"};

  struct OpResult {
    uint64_t inv = 0, ret = 0;
    std::string out;
  };

  struct ActorState {
    std::vector<OpResult> results;
    std::vector<int> trace;
  };

  std::string key_of(const J &op) {
    const std::string k = op.at("k").str();
    auto n = [&](const char *f) { return std::to_string(op.at(f).num()); };
    if (k == "defu" || k == "callu") return "fu_" + n("id");
    if (k == "defc" || k == "callc") return "fc_" + n("j");
    if (k == "addfun" || k == "callnf") return "nf_" + n("id");
    if (k == "gadd" || k == "greadu") return "gu_" + n("id");
    if (k == "gaddc" || k == "greadc") return "gc_" + n("j");
    if (k == "gset" || k == "greads") return "gs_" + n("j");
    if (k == "conv" || k == "needconv") return "conv_" + n("c");
    if (k == "ovdef" || k == "ovcall") return "ov_" + n("j") + "_" + n("t");
    if (k == "use" || k == "calluse") return "from_use";
    if (k == "mkglobnv" || k == "readnv") return "nv_" + n("j");
    if (k == "klass" || k == "knew") return "K_" + n("id");
    if (k == "addtype" || k == "readtype") return "ty_" + n("j");
    if (k == "nsdef" || k == "nsread") return "ns_" + n("j");
    if (k == "nsimport" || k == "nsvread") return "hns_" + n("j");
    return "";
  }

  class C13 : public World {
  public:
    const char *id() const override { return "C13"; }

    J generate(uint64_t run_seed, const std::string &tier) override {
      Rng plan(mix(run_seed, 1)), sched(mix(run_seed, 3));
      J p = J::object();
      const bool thorough = tier == "thorough";
      const int T = int(plan.range(2, thorough ? (plan.chance(300) ? 16 : 8) : 6));
      p["actors"] = J(T);
      const int total_ops_target = int(plan.range(10, thorough ? 60 : 40));
      J &ops = p["ops"];
      ops = J::array();
      // swarm: which op families are enabled in this run
      const unsigned fam = unsigned(plan.below(1u << 10)) | unsigned(plan.below(1u << 10));
      auto on = [&](int b) { return (fam >> b) & 1u; };
      int next_uid = 0;
      std::vector<int> defu, nf, gu, kl; // ids created so far (any actor)
      std::vector<std::vector<std::string>> locals(size_t(T), std::vector<std::string>{});
      const int n_contended = int(plan.range(1, 3));
      int value_ctr = 100;
      for (int n = 0; n < total_ops_target; ++n) {
        J op = J::object();
        const int a = int(plan.below(uint64_t(T)));
        op["a"] = J(a);
        const int kind = int(plan.below(31));
        switch (kind) {
        case 0:
          op["k"] = J("shared");
          op["x"] = J(int(plan.range(0, 50)));
          break;
        case 1:
          op["k"] = J("loop");
          op["n"] = J(int(plan.range(1, 6)));
          break;
        case 2:
          if (!on(0)) continue;
          op["k"] = J("defu");
          op["id"] = J(next_uid);
          op["c"] = J(value_ctr++);
          defu.push_back(next_uid++);
          break;
        case 3:
          if (defu.empty()) continue;
          op["k"] = J("callu");
          op["id"] = J(plan.pick(defu));
          break;
        case 4:
          if (!on(1)) continue;
          op["k"] = J("defc");
          op["j"] = J(int(plan.below(uint64_t(n_contended))));
          op["c"] = J(value_ctr++);
          break;
        case 5:
          if (!on(1)) continue;
          op["k"] = J("callc");
          op["j"] = J(int(plan.below(uint64_t(n_contended))));
          break;
        case 6:
          if (!on(2)) continue;
          op["k"] = J("addfun");
          op["id"] = J(next_uid);
          op["c"] = J(value_ctr++);
          nf.push_back(next_uid++);
          break;
        case 7:
          if (nf.empty()) continue;
          op["k"] = J("callnf");
          op["id"] = J(plan.pick(nf));
          break;
        case 8:
          if (!on(3)) continue;
          op["k"] = J("gadd");
          op["id"] = J(next_uid);
          op["v"] = J(value_ctr++);
          op["via"] = J(int(plan.below(3)));
          gu.push_back(next_uid++);
          break;
        case 9:
          if (gu.empty()) continue;
          op["k"] = J("greadu");
          op["id"] = J(plan.pick(gu));
          break;
        case 10:
          if (!on(4)) continue;
          op["k"] = J("gaddc");
          op["j"] = J(int(plan.below(uint64_t(n_contended))));
          op["v"] = J(value_ctr++);
          op["via"] = J(int(plan.below(2))); // add_global_const / add_global (both refuse an existing name)
          break;
        case 11:
          if (!on(4)) continue;
          op["k"] = J("greadc");
          op["j"] = J(int(plan.below(uint64_t(n_contended))));
          break;
        case 12:
          if (!on(5)) continue;
          op["k"] = J("gset");
          op["j"] = J(int(plan.below(uint64_t(n_contended))));
          op["v"] = J(value_ctr++);
          break;
        case 13:
          if (!on(5)) continue;
          op["k"] = J("greads");
          op["j"] = J(int(plan.below(uint64_t(n_contended))));
          break;
        case 14:
          if (!on(6)) continue;
          op["k"] = J(plan.chance(500) ? "conv" : "needconv");
          op["c"] = J(int(plan.below(N_CONV)));
          break;
        case 15:
          if (!on(7)) continue;
          op["k"] = J(plan.chance(500) ? "ovdef" : "ovcall");
          op["j"] = J(int(plan.below(2)));
          op["t"] = J(int(plan.below(5)));
          break;
        case 16: {
          static const char *names[] = {"x", "y", "z"};
          op["k"] = J("local");
          op["name"] = J(names[plan.below(3)]);
          op["v"] = J(value_ctr++);
          break;
        }
        case 17: {
          static const char *names[] = {"x", "y", "z"};
          op["k"] = J(plan.chance(700) ? "lread" : "getlocals");
          op["name"] = J(names[plan.below(3)]);
          break;
        }
        case 18:
          if (!on(8)) continue;
          op["k"] = J(plan.chance(600) ? "use" : "calluse");
          op["via"] = J(int(plan.below(2)));
          break;
        case 19:
          op["k"] = J("getstate");
          break;
        case 20:
          if (!on(9)) continue;
          op["k"] = J("klass");
          op["id"] = J(next_uid);
          op["v"] = J(value_ctr++);
          kl.push_back(next_uid++);
          break;
        case 21:
          if (kl.empty()) continue;
          op["k"] = J("knew");
          op["id"] = J(plan.pick(kl));
          op["v"] = J(value_ctr++);
          break;
        case 22:
          op["k"] = J("tree"); // one parsed tree, evaluated by every actor through eval(AST_Node)
          break;
        case 23:
          op["k"] = J("addtype");
          op["j"] = J(int(plan.below(2)));
          break;
        case 24:
          op["k"] = J("readtype");
          op["j"] = J(int(plan.below(2)));
          break;
        case 27:
          // a name that is a function from the start becomes a global as well (globals win): long-lived reader
          // functions, already evaluated by several threads, must see the global once its registration has returned
          op["k"] = J(plan.chance(350) ? "mkglobnv" : "readnv");
          op["j"] = J(int(plan.below(2)));
          op["v"] = J(value_ctr++);
          break;
        case 26:
          // a std::function made from a script function by the thread that built the engine, invoked by an actor;
          // the call needs a registered conversion, whose per-thread bookkeeping must be the CALLING thread's
          op["k"] = J("callcb");
          op["i"] = J(int(plan.below(2)));
          op["v"] = J(value_ctr++);
          break;
        case 28:
          // script-level namespace("ns_j"): registration + import in one call, contended name
          op["k"] = J(plan.chance(500) ? "nsdef" : "nsread");
          op["j"] = J(int(plan.below(uint64_t(n_contended))));
          break;
        case 29:
        case 30:
          // import("hns_j") of a namespace whose generator the host registered before the actors started: exactly one
          // import may run the generator and publish the namespace, the others must be told it is already defined
          op["k"] = J(plan.chance(600) ? "nsimport" : "nsvread");
          op["j"] = J(int(plan.below(2)));
          break;
        case 25:
          if (!on(8)) continue;
          op["k"] = J("usebad"); // use() of a file whose evaluation throws half-way
          op["via"] = J(int(plan.below(2)));
          break;
        }
        ops.push(std::move(op));
      }
      // directed scenario (swarm bias): two actors start with use() of the shared file, one of them
      // calls what the file defines right after its use() returned
      if (plan.chance(300)) {
        const int x = int(plan.below(uint64_t(T)));
        const int y = (x + 1 + int(plan.below(uint64_t(T - 1)))) % T;
        J front = J::array();
        auto mk = [&](int a, const char *k) {
          J op = J::object();
          op["a"] = J(a);
          op["k"] = J(k);
          op["via"] = J(int(plan.below(2)));
          return op;
        };
        front.push(mk(x, "use"));
        front.push(mk(y, "use"));
        front.push(mk(y, "calluse"));
        for (size_t i = 0; i < ops.size(); ++i) {
          front.push(ops[i]);
        }
        ops = front;
      }
      // directed scenario: every actor opens by defining a different overload of the same name, then calls all of them
      if (plan.chance(200)) {
        J front = J::array();
        const int j = int(plan.below(2));
        for (int a = 0; a < T && a < 5; ++a) {
          J op = J::object();
          op["a"] = J(a);
          op["k"] = J("ovdef");
          op["j"] = J(j);
          op["t"] = J(a);
          front.push(op);
        }
        for (int a = 0; a < T && a < 5; ++a) {
          J op = J::object();
          op["a"] = J(int(plan.below(uint64_t(T))));
          op["k"] = J("ovcall");
          op["j"] = J(j);
          op["t"] = J(a);
          front.push(op);
        }
        for (size_t i = 0; i < ops.size(); ++i) {
          front.push(ops[i]);
        }
        ops = front;
      }
      // directed scenario: several actors open with import() of the same host-registered namespace, then read it
      if (plan.chance(150)) {
        J front = J::array();
        const int j = int(plan.below(2));
        for (int a = 0; a < T && a < 3; ++a) {
          J op = J::object();
          op["a"] = J(a);
          op["k"] = J("nsimport");
          op["j"] = J(j);
          front.push(op);
        }
        for (int a = 0; a < T && a < 3; ++a) {
          J op = J::object();
          op["a"] = J(a);
          op["k"] = J("nsvread");
          op["j"] = J(j);
          front.push(op);
        }
        for (size_t i = 0; i < ops.size(); ++i) {
          front.push(ops[i]);
        }
        ops = front;
      }
      // directed scenario: an actor needs a conversion between already-known types before and after another actor registers it
      bool force_known = false;
      if (plan.chance(200)) {
        J front = J::array();
        const int c = 3 + int(plan.below(2));
        const int x = int(plan.below(uint64_t(T)));
        const int y = (x + 1 + int(plan.below(uint64_t(T - 1)))) % T;
        auto mk = [&](int a, const char *k) {
          J op = J::object();
          op["a"] = J(a);
          op["k"] = J(k);
          op["c"] = J(c);
          return op;
        };
        front.push(mk(x, "needconv"));
        front.push(mk(y, "conv"));
        front.push(mk(x, "needconv"));
        front.push(mk(y, "needconv"));
        for (size_t i = 0; i < ops.size(); ++i) {
          front.push(ops[i]);
        }
        ops = front;
        force_known = plan.chance(800);
      }
      // conversions in the reverse direction registered before the actors start: ConvA, ConvB and ConvC are then all
      // "known" to the conversion system, and registering conversions 1-4 later adds no new type
      p["known_types"] = J(force_known || plan.chance(500));
      // the engine may be created (and used a little) by a short-lived thread that has ended before the
      // actors start: actors may then run on recycled thread ids / thread control blocks
      p["creator"] = J(int(plan.below(3))); // 0 main, 1 temporary thread, 2 temporary thread that also declares x, y, z
      p["sched"] = gen_sched(sched, T, uint64_t(ops.size()) * 6);
      return p;
    }

    RunResult execute(const J &plan) override {
      warm_up();
      RunResult r;
      const int T = int(plan.at("actors").num(2));
      const J &ops = plan.at("ops");

      // ---- setup on main (happens-before every actor through thread creation)
      const std::string dir = run_dir() + "/c13/";
      ::mkdir(dir.c_str(), 0777);
      // a long file: many registrations (= lock points) between the start of its evaluation and the
      // definition the callers wait for
      {
        std::string body = "bump();\n";
        for (int i = 0; i < 8; ++i) {
          body += "def use_pad_" + std::to_string(i) + "(x) { x }\n";
        }
        body += "def from_use(x) { x + 1000 }\n";
        write_file(dir + "shared_use.chai", body);
        // a file that fails after it has had effects: it is not recorded as used, every use() evaluates it again
        write_file(dir + "bad_use.chai", "bump_bad();\nbump_bad();\nthrow(\"bad file\");\nbump_bad();\n");
      }
      // file calls of use() under this directory become scheduling points (no faults injected here)
      fl_reset();
      fl_track_prefix(dir.c_str());
      std::unique_ptr<Engine> chai;
      std::function<int(const CbDerived &)> cbs[2];
      auto make_callbacks = [&]() {
        chai->add(user_type<CbBase>(), "CbBase");
        chai->add(user_type<CbDerived>(), "CbDerived");
        chai->add(base_class<CbBase, CbDerived>());
        chai->add(fun([](const CbBase &b) { return b.v; }), "cb_takes_base");
        cbs[0] = chai->eval<std::function<int(const CbDerived &)>>("fun(d) { return cb_takes_base(d) }");
        cbs[1] = chai->eval<std::function<int(const CbDerived &)>>("fun(CbBase b) { var q = cb_takes_base(b); return q }");
      };
      const int creator = int(plan.at("creator").num(0));
      if (creator == 0) {
        chai = make_engine({dir});
        make_callbacks();
      } else {
        std::thread maker([&]() {
          chai = make_engine({dir});
          if (creator == 2) {
            chai->eval("var x = -11; var y = -12; var z = -13;"); // locals of a thread that will be gone
          }
          make_callbacks();
        });
        maker.join();
        r.counters["probe_engine_created_by_a_thread_that_ended"] += 1;
      }
      std::atomic<int> bumps{0}, bad_bumps{0};
      std::vector<ActorState> st(size_t(T) + 1);
      chai->add(fun([&bumps]() { bumps.fetch_add(1, std::memory_order_relaxed); }), "bump");
      chai->add(fun([&bad_bumps]() { bad_bumps.fetch_add(1, std::memory_order_relaxed); }), "bump_bad");
      chai->add(fun([&st](int n) { st[size_t(sim_self() + 1)].trace.push_back(n); }), "t");
      chai->add(fun([](const Base &b) { return b.base_val(); }), "takes_base");
      chai->add(fun([]() { return Derived(); }), "make_derived");
      chai->add(fun([](int v) { return ConvA{v}; }), "make_a");
      chai->add(fun([](int v) { return ConvB{v}; }), "make_b");
      chai->add(fun([](const ConvB &b) { return b.v; }), "takes_b");
      chai->add(fun([](const ConvC &c) { return c.v; }), "takes_c");
      chai->add(fun([](int v) { return ConvC{v}; }), "make_c");
      chai->add(fun([](const ConvA &a) { return a.v; }), "takes_a2");
      chai->add(fun([](const std::string &) { return -1; }), "takes_a2");
      chai->add(user_type<ConvC>(), "ConvC");
      chai->eval("def takes_c_typed(ConvC c) { return takes_c(c) }; def takes_c_typed(string s) { return -1 }");
      if (plan.has("known_types") && plan.at("known_types").truthy()) {
        chai->add(type_conversion<ConvC, ConvB>([](const ConvC &c) { return ConvB{c.v + 100}; }));
        chai->add(type_conversion<ConvB, ConvA>([](const ConvB &b) { return ConvA{b.v + 100}; }));
        r.counters["probe_conversion_types_known_in_advance"] += 1;
      }
      std::atomic<int> ns_generated[2] = {{0}, {0}};
      for (int j = 0; j < 2; ++j) {
        chai->register_namespace(
            [j, &ns_generated](Namespace &space) {
              ns_generated[j].fetch_add(1, std::memory_order_relaxed);
              sim_yield(7, nullptr); // the generator is user code: other threads may run while it does
              space["v"] = var(int(40 + j));
              sim_yield(7, nullptr);
              space["w"] = var(int(50 + j));
            },
            "hns_" + std::to_string(j));
      }
      chai->eval("def shared_f(x) { var y = x * 2; var z = y + 1; t(z); return z }");
      chai->eval("def nv0() { 0 }; def nv1() { 0 }; def read_nv0() { return nv0 }; def read_nv1() { return nv1 }");
      const AST_NodePtr shared_tree = chai->parse("fun(a) { var y = a * 2; var z = y + 1; return z }(21)");

      // ops per actor, in plan order
      std::vector<std::vector<size_t>> mine(static_cast<size_t>(T));
      for (size_t i = 0; i < ops.size(); ++i) {
        const int a = int(ops[i].at("a").num());
        if (a >= 0 && a < T) {
          mine[size_t(a)].push_back(i);
        }
      }
      std::vector<OpResult> res(ops.size());

      auto body = [&](int a) {
        Engine &e = *chai;
        std::map<std::string, int64_t> my_locals;
        for (size_t oi : mine[size_t(a)]) {
          const J &op = ops[oi];
          const std::string k = op.at("k").str();
          auto num = [&](const char *f) { return op.at(f).num(); };
          auto sn = [&](const char *f) { return std::to_string(op.at(f).num()); };
          std::string out;
          OpScope scope;
          try {
            if (k == "shared") {
              out = eval_show(e, "shared_f(" + sn("x") + ")");
            } else if (k == "loop") {
              out = eval_show(e, "fun() { var s = 0; for (var i = 0; i < " + sn("n") + "; ++i) { s += shared_f(i) }; return s }()");
            } else if (k == "defu") {
              out = eval_show(e, "def fu_" + sn("id") + "(x) { x + " + sn("c") + " }");
            } else if (k == "callu") {
              out = eval_show(e, "fu_" + sn("id") + "(0)");
            } else if (k == "defc") {
              out = eval_show(e, "def fc_" + sn("j") + "(x) { x + " + sn("c") + " }");
            } else if (k == "callc") {
              out = eval_show(e, "fc_" + sn("j") + "(0)");
            } else if (k == "addfun") {
              const int c = int(num("c"));
              try {
                e.add(fun([c](int x) { return x + c; }), "nf_" + sn("id"));
                out = "=void";
              } catch (...) {
                out = "!" + describe_current_exception(&e);
              }
            } else if (k == "callnf") {
              out = eval_show(e, "nf_" + sn("id") + "(0)");
            } else if (k == "gadd") {
              const int via = int(num("via"));
              const std::string name = "gu_" + sn("id");
              if (via == 0) {
                out = eval_show(e, "global " + name + " = " + sn("v") + "; " + name);
              } else {
                try {
                  if (via == 1) {
                    e.add_global(var(int(num("v"))), name);
                  } else {
                    e.add_global_const(const_var(int(num("v"))), name);
                  }
                  out = "=i:" + sn("v");
                } catch (...) {
                  out = "!" + describe_current_exception(&e);
                }
              }
            } else if (k == "greadu") {
              out = eval_show(e, "gu_" + sn("id"));
            } else if (k == "gaddc") {
              try {
                if (op.has("via") && num("via") == 1) {
                  e.add_global(var(int(num("v"))), "gc_" + sn("j"));
                } else {
                  e.add_global_const(const_var(int(num("v"))), "gc_" + sn("j"));
                }
                out = "=void";
              } catch (const exception::name_conflict_error &) {
                out = "!name_conflict|";
              } catch (...) {
                out = "!" + describe_current_exception(&e);
              }
            } else if (k == "greadc") {
              out = eval_show(e, "gc_" + sn("j"));
            } else if (k == "gset") {
              try {
                e.set_global(var(int(num("v"))), "gs_" + sn("j"));
                out = "=void";
              } catch (...) {
                out = "!" + describe_current_exception(&e);
              }
            } else if (k == "greads") {
              out = eval_show(e, "gs_" + sn("j"));
            } else if (k == "conv") {
              try {
                e.add(make_conv(int(num("c"))));
                out = "=void";
              } catch (const exception::conversion_error &) {
                out = "!conversion_error|";
              } catch (...) {
                out = "!" + describe_current_exception(&e);
              }
            } else if (k == "nsdef") {
              out = eval_show(e, "namespace(\"ns_" + sn("j") + "\")");
            } else if (k == "nsread") {
              out = eval_show(e, "type_name(ns_" + sn("j") + ")");
            } else if (k == "nsimport") {
              out = eval_show(e, "import(\"hns_" + sn("j") + "\")");
            } else if (k == "nsvread") {
              out = eval_show(e, "hns_" + sn("j") + ".v + hns_" + sn("j") + ".w");
            } else if (k == "needconv") {
              out = eval_show(e, conv_expr[num("c") % N_CONV]);
            } else if (k == "ovdef") {
              const int t = int(num("t")) % 5;
              out = eval_show(e, "def ov_" + sn("j") + "(" + ov_types[t] + " x) { " + std::to_string(500 + t) + " }");
            } else if (k == "ovcall") {
              const int t = int(num("t")) % 5;
              out = eval_show(e, "ov_" + sn("j") + "(" + ov_args[t] + ")");
            } else if (k == "local") {
              const std::string name = op.at("name").str();
              if (my_locals.count(name)) {
                out = eval_show(e, name + " = " + sn("v"));
              } else {
                out = eval_show(e, "var " + name + " = " + sn("v"));
              }
              my_locals[name] = num("v");
              if (out != "=i:" + sn("v")) {
                out += " (expected =i:" + sn("v") + ")";
                r_fail_local(a, oi, out);
              }
            } else if (k == "lread") {
              const std::string name = op.at("name").str();
              out = eval_show(e, name);
              const std::string expect = my_locals.count(name) ? "=i:" + std::to_string(my_locals[name]) : "!eval_error|Can not find object: " + name;
              if (out != expect) {
                r_fail_local(a, oi, out + " (expected " + expect + ")");
              }
            } else if (k == "getlocals") {
              auto l = e.get_locals();
              out = "=locals";
              for (auto &kv : l) {
                out += " " + kv.first + "=" + show(kv.second, &e);
              }
              std::string expect = "=locals";
              for (auto &kv : my_locals) {
                expect += " " + kv.first + "=i:" + std::to_string(kv.second);
              }
              if (out != expect) {
                r_fail_local(a, oi, out + " (expected " + expect + ")");
              }
            } else if (k == "use") {
              if (num("via") == 0) {
                out = eval_show(e, "use(\"shared_use.chai\")");
              } else {
                try {
                  e.use("shared_use.chai");
                  out = "=void";
                } catch (...) {
                  out = "!" + describe_current_exception(&e);
                }
              }
            } else if (k == "usebad") {
              if (num("via") == 0) {
                out = eval_show(e, "use(\"bad_use.chai\")");
              } else {
                try {
                  e.use("bad_use.chai");
                  out = "=void";
                } catch (...) {
                  out = "!" + describe_current_exception(&e);
                }
              }
            } else if (k == "mkglobnv") {
              try {
                e.add_global(var(int(num("v"))), "nv" + sn("j"));
                out = "=void";
              } catch (const exception::name_conflict_error &) {
                out = "!name_conflict|";
              } catch (...) {
                out = "!" + describe_current_exception(&e);
              }
            } else if (k == "readnv") {
              out = eval_show(e, "read_nv" + sn("j") + "()");
            } else if (k == "callcb") {
              try {
                CbDerived d;
                d.v = int(num("v"));
                out = "=i:" + std::to_string(cbs[size_t(num("i")) % 2](d));
              } catch (...) {
                out = "!" + describe_current_exception(&e);
              }
            } else if (k == "calluse") {
              out = eval_show(e, "from_use(1)");
            } else if (k == "getstate") {
              auto s = e.get_state();
              out = s.engine_state.m_functions.count(std::string("shared_f")) ? "=state" : "=state-without-shared_f";
            } else if (k == "tree") {
              try {
                out = "=" + show(e.eval(*shared_tree), &e);
              } catch (...) {
                out = "!" + describe_current_exception(&e);
              }
            } else if (k == "addtype") {
              try {
                if (num("j") % 2 == 0) {
                  e.add(user_type<ConvA>(), "Ty0");
                } else {
                  e.add(user_type<ConvB>(), "Ty1");
                }
                out = "=void";
              } catch (const exception::name_conflict_error &) {
                out = "!name_conflict|";
              } catch (...) {
                out = "!" + describe_current_exception(&e);
              }
            } else if (k == "readtype") {
              out = eval_show(e, "type(\"Ty" + std::to_string(num("j") % 2) + "\", false).is_type_undef()");
            } else if (k == "klass") {
              const std::string cn = "K_" + sn("id");
              out = eval_show(e, "class " + cn + " { var v; def " + cn + "(x) { this.v = x }; def get() { this.v } }");
            } else if (k == "knew") {
              out = eval_show(e, "K_" + sn("id") + "(" + sn("v") + ").get()");
            } else {
              out = "?unknown-op";
            }
          } catch (...) {
            out = "!!harness:" + describe_current_exception(&e);
          }
          res[oi].inv = scope.inv;
          res[oi].ret = scope.ret_stamp();
          res[oi].out = out;
          sim_log(1, uint64_t(oi), fnv1a(out));
        }
      };

      local_fail_.assign(size_t(T), "");
      ActorRun ar = run_actors(plan.at("sched"), T, body, r);
      fl_reset();
      r.event_hash = ar.stats.event_hash;
      recorded_ = ar.recorded;
      r.recorded_sched = ar.recorded;
      if (ar.result != SIM_OK) {
        // threads are parked inside the engine: nothing more can be checked
        chai.release(); // NOLINT: deliberately leaked, other threads still reference it
        r.nontrivial = true;
        r.distinct_key = ar.stats.interleaving_hash;
        return r;
      }

      // ---- oracles (main thread, after join)
      for (int a = 0; a < T; ++a) {
        if (!local_fail_[size_t(a)].empty()) {
          r.fail("thread-local-isolation", local_fail_[size_t(a)]);
        }
      }

      // direct expectations + linearizability per key
      std::map<std::string, std::vector<LinOp>> hist;
      std::map<std::string, int64_t> winner; // key -> value of the successful Add / last possible
      std::map<std::string, size_t> klass_def;
      std::map<std::string, int64_t> unique_global;
      int use_ops = 0, usebad_ops = 0;
      int nsimport_ops[2] = {0, 0};
      for (size_t i = 0; i < ops.size(); ++i) {
        const J &op = ops[i];
        const int a = int(op.at("a").num());
        if (a < 0 || a >= T) {
          continue;
        }
        const std::string k = op.at("k").str();
        const std::string &out = res[i].out;
        const std::string key = key_of(op);
        auto bad = [&](const std::string &why) {
          r.fail("unexpected-result", "op " + std::to_string(i) + " " + op.dump() + " -> " + out + " : " + why);
        };
        auto add_op = [&](LinOp::Kind kind, int64_t value, bool ok) { hist[key].push_back(LinOp{kind, value, ok, res[i].inv, res[i].ret}); };
        auto not_found = [&]() {
          return out.rfind("!eval_error|Can not find object", 0) == 0 || out.rfind("!eval_error|Error with function dispatch", 0) == 0
              || out.rfind("!eval_error|Guard evaluation failed", 0) == 0 || out.rfind("!eval_error|Error calling function", 0) == 0;
        };
        auto read_int = [&](int64_t base) {
          // "=i:<n>" -> n - base ; not found -> -1 ; anything else -> unexpected
          if (out.rfind("=i:", 0) == 0) {
            add_op(LinOp::Read, atoll(out.c_str() + 3) - base, true);
          } else if (out == "=undef" && k == "greadu") {
            add_op(LinOp::Read, -2, true);
          } else if (not_found()) {
            add_op(LinOp::Read, -1, true);
          } else {
            bad("neither a value nor not-found");
          }
        };
        if (k == "shared") {
          if (out != "=i:" + std::to_string(op.at("x").num() * 2 + 1)) bad("shared_f result");
        } else if (k == "loop") {
          int64_t n = op.at("n").num(), s = 0;
          for (int64_t q = 0; q < n; ++q) s += q * 2 + 1;
          if (out != "=i:" + std::to_string(s)) bad("loop result");
        } else if (k == "defu" || k == "defc" || k == "ovdef") {
          const int64_t v = (k == "ovdef") ? 500 + op.at("t").num() % 5 : op.at("c").num();
          if (out == "=void") {
            add_op(LinOp::Add, v, true);
          } else if (out.rfind("!eval_error|Function redefined", 0) == 0) {
            add_op(LinOp::Add, v, false);
          } else {
            bad("def outcome");
          }
        } else if (k == "callu" || k == "callc" || k == "callnf") {
          read_int(0);
        } else if (k == "ovcall") {
          read_int(0);
        } else if (k == "addfun") {
          if (out == "=void") add_op(LinOp::Add, op.at("c").num(), true);
          else bad("add(fun) of a unique name failed");
        } else if (k == "gadd") {
          if (out == "=i:" + std::to_string(op.at("v").num())) {
            if (op.at("via").num() == 0) {
              // `global g = v` in script registers the name first (undefined value) and assigns
              // afterwards: a concurrent reader may legitimately observe the undefined value
              add_op(LinOp::Add, -2, true);
              add_op(LinOp::Set, op.at("v").num(), true);
            } else {
              add_op(LinOp::Add, op.at("v").num(), true);
            }
            unique_global[key] = op.at("v").num();
          } else {
            bad("add of a unique global failed");
          }
        } else if (k == "gaddc") {
          if (out == "=void") add_op(LinOp::Add, op.at("v").num(), true);
          else if (out == "!name_conflict|") add_op(LinOp::Add, op.at("v").num(), false);
          else bad("add_global_const outcome");
        } else if (k == "gset") {
          if (out == "=void") add_op(LinOp::Set, op.at("v").num(), true);
          else bad("set_global failed");
        } else if (k == "greadu" || k == "greadc" || k == "greads") {
          read_int(0);
        } else if (k == "conv") {
          if (out == "=void") add_op(LinOp::Add, 1, true);
          else if (out == "!conversion_error|") add_op(LinOp::Add, 1, false);
          else bad("add(conversion) outcome");
        } else if (k == "nsdef" || k == "nsimport") {
          if (k == "nsimport") ++nsimport_ops[op.at("j").num() % 2];
          // exactly one definition / import succeeds; every other one is told so with the engine's own message
          if (out == "=void") add_op(LinOp::Add, 1, true);
          else if (out.find("runtime_error|Namespace: ") != std::string::npos && (out.find("was already registered") != std::string::npos || out.find("was already defined") != std::string::npos)) add_op(LinOp::Add, 1, false);
          else bad("namespace definition / import outcome");
        } else if (k == "nsread") {
          if (out == "=s:Dynamic_Object") add_op(LinOp::Read, 1, true);
          else if (not_found()) add_op(LinOp::Read, -1, true);
          else bad("namespace read");
        } else if (k == "nsvread") {
          const int j = int(op.at("j").num() % 2);
          if (out == "=i:" + std::to_string(90 + 2 * j)) add_op(LinOp::Read, 1, true);
          else if (not_found()) add_op(LinOp::Read, -1, true);
          else bad("members of an imported namespace");
        } else if (k == "needconv") {
          const int c = int(op.at("c").num() % N_CONV);
          if (out == conv_expect[c]) add_op(LinOp::Read, 1, true);
          else if (not_found()) add_op(LinOp::Read, -1, true);
          else bad("converted call result");
        } else if (k == "use") {
          ++use_ops;
          if (out == "=void" || out == "=undef") add_op(LinOp::Set, 1001, true);
          else bad("use() failed");
        } else if (k == "usebad") {
          ++usebad_ops;
          if (out != "!Boxed_Value|s:bad file") bad("use() of a file that throws must deliver the file's exception");
        } else if (k == "mkglobnv") {
          if (out == "=void") add_op(LinOp::Add, op.at("v").num(), true);
          else if (out == "!name_conflict|") add_op(LinOp::Add, op.at("v").num(), false);
          else bad("add_global under the name of a function");
        } else if (k == "readnv") {
          if (out.rfind("=i:", 0) == 0) add_op(LinOp::Read, atoll(out.c_str() + 3), true);
          else if (out.rfind("=T:", 0) == 0 || out.rfind("=fn", 0) == 0) add_op(LinOp::Read, -1, true); // still the function object
          else bad("reader of a name that is a function and may have become a global");
        } else if (k == "callcb") {
          if (out != "=i:" + std::to_string(op.at("v").num())) bad("callback made from a script function, invoked by another thread");
          r.counters["probe_callback_invoked_by_another_thread_than_its_maker"] += 1;
        } else if (k == "calluse") {
          read_int(0);
        } else if (k == "getstate") {
          if (out != "=state") bad("get_state lost a function registered before the run");
        } else if (k == "tree") {
          if (out != "=i:43") bad("shared parsed tree evaluated to something else");
        } else if (k == "addtype") {
          // registering a type is two registry steps (global <name>_type, then the type table); only a
          // registration that RETURNED successfully is part of the history, a reported conflict says nothing
          if (out == "=void") add_op(LinOp::Add, 1, true);
          else if (out != "!name_conflict|") bad("add(user_type) outcome");
        } else if (k == "readtype") {
          if (out == "=false") add_op(LinOp::Read, 1, true);
          else if (out == "=true") add_op(LinOp::Read, -1, true);
          else bad("type lookup outcome");
        } else if (k == "klass") {
          if (out == "=void") klass_def[key] = i;
          else bad("class definition failed");
        } else if (k == "knew") {
          auto it = klass_def.find(key);
          // the class definition registers several functions one after another, so it is not one
          // atomic registry operation: only a knew that starts after the definition RETURNED is judged
          bool defined_before = false;
          for (size_t q = 0; q < ops.size(); ++q) {
            if (ops[q].at("k").str() == "klass" && key_of(ops[q]) == key && res[q].out == "=void" && res[q].ret < res[i].inv && res[q].ret != 0) {
              defined_before = true;
            }
          }
          (void)it;
          if (defined_before && out != "=i:" + std::to_string(op.at("v").num())) bad("class defined earlier is not usable");
        }
      }
      for (auto &kv : hist) {
        if (!linearizable(kv.second)) {
          std::string h;
          for (auto &lo : kv.second) {
            h += std::string(lo.kind == LinOp::Add ? "add" : lo.kind == LinOp::Set ? "set" : "read") + "(" + std::to_string(lo.value) + (lo.kind == LinOp::Add ? (lo.ok ? ",ok" : ",conflict") : "") + ")@"
                + std::to_string(lo.inv) + "-" + std::to_string(lo.ret) + " ";
          }
          r.fail("registry-not-linearizable", "key " + kv.first + ": " + h);
        }
        r.counters["lin_histories"] += 1;
        bool contended = false;
        for (size_t x = 0; x < kv.second.size() && !contended; ++x) {
          for (size_t y = x + 1; y < kv.second.size(); ++y) {
            if (kv.second[x].inv <= kv.second[y].ret && kv.second[y].inv <= kv.second[x].ret) {
              contended = true;
              break;
            }
          }
        }
        if (contended) {
          r.counters["probe_lin_history_with_overlapping_ops"] += 1;
        }
      }

      // final inventory: every successful registration is still there (nothing lost), read on main
      for (auto &kv : hist) {
        int64_t expect = -1;
        int adds_ok = 0;
        bool has_set = false;
        for (auto &lo : kv.second) {
          if (lo.kind == LinOp::Add && lo.ok) {
            expect = lo.value;
            ++adds_ok;
          }
          if (lo.kind == LinOp::Set) {
            has_set = true;
          }
        }
        if (adds_ok > 1) {
          r.fail("contended-registration-won-twice", "key " + kv.first);
        }
        const std::string &key = kv.first;
        if (unique_global.count(key)) {
          expect = unique_global[key];
        } else if (has_set || adds_ok != 1) {
          continue;
        }
        std::string probe, want;
        if (key.rfind("fu_", 0) == 0 || key.rfind("fc_", 0) == 0 || key.rfind("nf_", 0) == 0) {
          probe = key + "(0)";
          want = "=i:" + std::to_string(expect);
        } else if (key.rfind("gu_", 0) == 0 || key.rfind("gc_", 0) == 0) {
          probe = key;
          want = "=i:" + std::to_string(expect);
        } else if (key.rfind("conv_", 0) == 0) {
          const int c = atoi(key.c_str() + 5) % N_CONV;
          probe = conv_expr[c];
          want = conv_expect[c];
        } else if (key.rfind("ov_", 0) == 0) {
          const int t = int(expect - 500);
          probe = key.substr(0, key.rfind('_')) + "(" + ov_args[t] + ")";
          want = "=i:" + std::to_string(expect);
        } else {
          continue;
        }
        const std::string got = eval_show(*chai, probe);
        if (got != want) {
          r.fail("registration-lost", "after the run " + probe + " -> " + got + ", expected " + want);
        }
        r.counters["final_inventory_probes"] += 1;
      }
      if (use_ops > 0 && bumps.load() != 1) {
        r.fail("use-not-exactly-once", "shared_use.chai evaluated " + std::to_string(bumps.load()) + " times for " + std::to_string(use_ops) + " use() calls");
      }
      if (use_ops > 1) {
        r.counters["probe_multiple_use_calls"] += 1;
      }
      if (nsimport_ops[0] > 1 || nsimport_ops[1] > 1) {
        r.counters["probe_multiple_imports_of_one_namespace"] += 1;
      }
      for (int j = 0; j < 2; ++j) {
        if (ns_generated[j].load() > 1) {
          r.fail("namespace-generated-more-than-once", "the generator of namespace hns_" + std::to_string(j) + " ran " + std::to_string(ns_generated[j].load()) + " times (import must run it once per engine)");
        }
      }
      if (bad_bumps.load() != 2 * usebad_ops) {
        r.fail("failed-use-recorded-as-used", "bad_use.chai throws half-way: " + std::to_string(usebad_ops) + " use() calls must each evaluate it up to the throw, counted "
                                                  + std::to_string(bad_bumps.load()) + " side effects instead of " + std::to_string(2 * usebad_ops));
      }
      if (usebad_ops > 1) {
        r.counters["probe_multiple_failing_use_calls"] += 1;
      }
      if (ar.stats.blocked > 0) {
        r.counters["probe_actor_blocked_on_mutex"] += 1;
      }
      // trace of t(): every actor's trace must be exactly the z values of its own shared_f calls
      for (int a = 0; a < T; ++a) {
        std::vector<int> want;
        for (size_t oi : mine[size_t(a)]) {
          const J &op = ops[oi];
          const std::string k = op.at("k").str();
          if (k == "shared") want.push_back(int(op.at("x").num() * 2 + 1));
          if (k == "loop") {
            for (int q = 0; q < op.at("n").num(); ++q) want.push_back(q * 2 + 1);
          }
        }
        if (want != st[size_t(a) + 1].trace) {
          r.fail("per-thread-trace", "actor " + std::to_string(a) + " saw a different sequence of shared_f side effects than its own calls produce");
        }
      }
      r.counters["ops"] += int64_t(ops.size());
      r.counters["actors"] += T;
      r.nontrivial = ar.stats.switches > 0;
      uint64_t shape = 0xcbf29ce484222325ULL;
      for (size_t i = 0; i < ops.size(); ++i) {
        shape = fnv1a(ops[i].at("k").str(), shape) * 31 + uint64_t(ops[i].at("a").num());
      }
      r.distinct_key = shape ^ ar.stats.interleaving_hash;
      return r;
    }

    J describe() override {
      J d = J::object();
      d["real"] = J("whole ChaiScript engine (parser, optimizer, evaluator, dispatch, stdlib), real std::shared_mutex/recursive_mutex under the H1 wrappers, real threads");
      d["simulated"] = J("which thread runs next at every lock acquisition/release, operation boundary and tracked file call");
      return d;
    }

    J last_recorded() { return recorded_; }

  private:
    std::vector<std::string> local_fail_;
    J recorded_;
    void r_fail_local(int a, size_t oi, const std::string &what) {
      if (local_fail_[size_t(a)].empty()) {
        local_fail_[size_t(a)] = "actor " + std::to_string(a) + " op " + std::to_string(oi) + ": " + what;
      }
    }
  };

  C13 g_c13;
  RegisterWorld reg_c13(&g_c13);
} // namespace
