// World C06 — C++ functions are only ever entered with correctly typed arguments.
//
// System under simulation: one engine, 1..3 actor threads, a catalogue of harness C++ functions
// over parameter forms (value, const&, &, *, const*, shared_ptr, shared_ptr<const>, std::function,
// int, double, bool, std::string, Base/Derived/Other user classes, Boxed_Value / Boxed_Number
// catch-alls); every function logs which overload was entered and what it received.
// What simulation adds to the (overload set x argument tuple) input space is the HISTORY side the
// property also quantifies over: overloads registered in generated order, further overloads and
// the Derived->Base conversion registered between (and, under the seeded scheduler, during) calls
// by other actors, function objects fetched earlier and called later, per-thread conversion caches.
// Oracle (soundness rules, judged against what was registered when the call ran — not a prediction
// of ChaiScript's tie-breaking): entered => every argument relates to the parameter type by identity,
// arithmetic conversion, registered base conversion or catch-all, with the right const-ness, and the
// received value equals the (converted) script value; a failed call enters nothing and a successful
// call enters exactly one overload exactly once; if an overload registered before the call matches
// the argument types exactly, an exact overload is the one entered; a call no overload can accept
// fails.  C++-receiving direction: boxed_cast<T> / eval<T> / std::function results succeed only
// through the same relations (identity always succeeds) and otherwise throw bad_boxed_cast.
#include "simworld.hpp"

#include <atomic>
#include <set>

using namespace verif;
using namespace chaiscript;

namespace {

  enum Ty { INT, DBL, BOOL, STR, BASE, DERIVED, OTHER, VEC, FN, ANY, NUM, CHR, UNDEF, FN2, SRC, N_TY };
  enum Form { VAL, CREF, REF, PTR, CPTR, SP, SPC, RREF, N_FORM };
  const char *ty_names[] = {"int", "double", "bool", "string", "Base", "Derived", "Other", "Vector", "function", "Boxed_Value", "Boxed_Number", "char", "undefined", "function of two", "Src (user-convertible to Other)"};
  const char *form_names[] = {"T", "const T&", "T&", "T*", "const T*", "shared_ptr<T>", "shared_ptr<const T>", "T&&"};

  struct Base6 {
    int id;
    explicit Base6(int i) : id(i) {}
    virtual ~Base6() = default;
  };
  struct Derived6 : Base6 {
    explicit Derived6(int i) : Base6(i) {}
  };
  struct Other6 {
    int id;
    explicit Other6(int i) : id(i) {}
  };
  // converts to Other6 through a user-defined (by-value) conversion registered before the run
  struct Src6 {
    int id;
  };

  struct Entry {
    int overload;
    std::vector<std::string> received;
    bool threw = false; // the body raised std::bad_cast after logging its entry
  };
  struct ActorLog {
    std::vector<Entry> entries;
  };
  ActorLog *g_logs = nullptr; // indexed by sim_self()+1

  ActorLog &my_log() { return g_logs[sim_self() + 1]; }

  std::string desc(int v) { return "int:" + std::to_string(v); }
  std::string desc(double v) {
    char b[64];
    snprintf(b, sizeof(b), "double:%.6g", v);
    return b;
  }
  std::string desc(bool v) { return v ? "bool:1" : "bool:0"; }
  std::string desc(const std::string &v) { return "string:" + v; }
  std::string desc(const Base6 &v) { return "obj:" + std::to_string(v.id); }
  std::string desc(const Other6 &v) { return "other:" + std::to_string(v.id); }
  std::string desc(const Base6 *v) { return v ? desc(*v) : std::string("null"); }
  std::string desc(const std::shared_ptr<Base6> &v) { return v ? desc(*v) : std::string("null"); }
  std::string desc(const std::shared_ptr<const Base6> &v) { return v ? desc(*v) : std::string("null"); }
  std::string desc(const std::shared_ptr<Derived6> &v) { return v ? desc(*v) : std::string("null"); }
  std::string desc(const int *v) { return v ? desc(*v) : std::string("null"); }
  std::string desc(const std::shared_ptr<int> &v) { return v ? desc(*v) : std::string("null"); }
  std::string desc(const std::shared_ptr<const int> &v) { return v ? desc(*v) : std::string("null"); }
  std::string desc(const std::string *v) { return v ? desc(*v) : std::string("null"); }
  std::string desc(const std::vector<Boxed_Value> &v) { return "vec:" + std::to_string(v.size()); }
  std::string desc(const Boxed_Number &v) { return "num:" + v.to_string(); }
  std::string desc(const Boxed_Value &v) { return "any:" + std::string(v.get_type_info().bare_name()); }
  std::string desc(const std::function<int(int)> &f) {
    try {
      return "fn:" + std::to_string(f(3));
    } catch (const exception::bad_boxed_cast &) {
      return "fn:bad_boxed_cast";
    } catch (const std::exception &e) {
      return std::string("fn:exception:") + typeid(e).name();
    }
  }

  std::string desc(const std::function<int(int, int)> &f) {
    try {
      return "fn2:" + std::to_string(f(3, 4));
    } catch (const exception::bad_boxed_cast &) {
      return "fn2:bad_boxed_cast";
    } catch (const std::exception &e) {
      return std::string("fn2:exception:") + typeid(e).name();
    }
  }

  // ---- the catalogue: signature id -> (parameter list, registration function)
  struct Param {
    Ty ty;
    Form form;
  };
  struct Sig {
    std::vector<Param> params;
    std::function<void(Engine &, const std::string &, int)> add;
  };

  template<typename P1>
  Sig sig1(Param p1) {
    return Sig{{p1}, [](Engine &e, const std::string &name, int id) {
                 e.add(fun([id](P1 a) {
                         my_log().entries.push_back(Entry{id, {desc(a)}});
                         // other actors get to run while this function holds its argument: what it received must not
                         // change (or die) under it
                         const size_t at = my_log().entries.size() - 1;
                         sim_yield(7, nullptr);
                         const std::string again = desc(a);
                         if (again != my_log().entries[at].received[0]) {
                           my_log().entries[at].received.push_back("changed-during-the-call:" + again);
                         }
                         return id;
                       }),
                       name);
               }};
  }
  // an overload whose BODY fails with std::bad_cast (a failed dynamic_cast, say) after it was entered:
  // the exception belongs to the caller, no other overload may be tried because of it
  template<typename P1, bool BoxedCast = false>
  Sig sig1_throwing(Param p1) {
    return Sig{{p1}, [](Engine &e, const std::string &name, int id) {
                 e.add(fun([id](P1 a) -> int {
                         Entry en{id, {desc(a)}};
                         en.threw = true;
                         my_log().entries.push_back(en);
                         if (BoxedCast) {
                           throw exception::bad_boxed_cast(utility::Static_String("raised by the body"));
                         }
                         throw std::bad_cast();
                       }),
                       name);
               }};
  }
  template<typename P1, typename P2>
  Sig sig2(Param p1, Param p2) {
    return Sig{{p1, p2}, [](Engine &e, const std::string &name, int id) {
                 e.add(fun([id](P1 a, P2 b) {
                         my_log().entries.push_back(Entry{id, {desc(a), desc(b)}});
                         return id;
                       }),
                       name);
               }};
  }

  const std::vector<Sig> &catalogue() {
    static const std::vector<Sig> c = {
        /* 0*/ sig1<int>({INT, VAL}),
        /* 1*/ sig1<const int &>({INT, CREF}),
        /* 2*/ sig1<int &>({INT, REF}),
        /* 3*/ sig1<int *>({INT, PTR}),
        /* 4*/ sig1<const int *>({INT, CPTR}),
        /* 5*/ sig1<std::shared_ptr<int>>({INT, SP}),
        /* 6*/ sig1<std::shared_ptr<const int>>({INT, SPC}),
        /* 7*/ sig1<double>({DBL, VAL}),
        /* 8*/ sig1<const double &>({DBL, CREF}),
        /* 9*/ sig1<double &>({DBL, REF}),
        /*10*/ sig1<bool>({BOOL, VAL}),
        /*11*/ sig1<std::string>({STR, VAL}),
        /*12*/ sig1<const std::string &>({STR, CREF}),
        /*13*/ sig1<std::string &>({STR, REF}),
        /*14*/ sig1<const std::string *>({STR, CPTR}),
        /*15*/ sig1<const Base6 &>({BASE, CREF}),
        /*16*/ sig1<Base6 &>({BASE, REF}),
        /*17*/ sig1<Base6 *>({BASE, PTR}),
        /*18*/ sig1<const Base6 *>({BASE, CPTR}),
        /*19*/ sig1<std::shared_ptr<Base6>>({BASE, SP}),
        /*20*/ sig1<std::shared_ptr<const Base6>>({BASE, SPC}),
        /*21*/ sig1<const Derived6 &>({DERIVED, CREF}),
        /*22*/ sig1<Derived6 &>({DERIVED, REF}),
        /*23*/ sig1<std::shared_ptr<Derived6>>({DERIVED, SP}),
        /*24*/ sig1<const Other6 &>({OTHER, CREF}),
        /*25*/ sig1<const std::vector<Boxed_Value> &>({VEC, CREF}),
        /*26*/ sig1<const std::function<int(int)> &>({FN, CREF}),
        /*27*/ sig1<Boxed_Value>({ANY, VAL}),
        /*28*/ sig1<const Boxed_Number &>({NUM, CREF}),
        /*29*/ sig2<int, int>({INT, VAL}, {INT, VAL}),
        /*30*/ sig2<int, double>({INT, VAL}, {DBL, VAL}),
        /*31*/ sig2<double, int>({DBL, VAL}, {INT, VAL}),
        /*32*/ sig2<const std::string &, int>({STR, CREF}, {INT, VAL}),
        /*33*/ sig2<const Base6 &, int>({BASE, CREF}, {INT, VAL}),
        /*34*/ sig2<Base6 &, const std::string &>({BASE, REF}, {STR, CREF}),
        /*35*/ sig2<const Derived6 &, int>({DERIVED, CREF}, {INT, VAL}),
        /*36*/ sig2<Boxed_Value, int>({ANY, VAL}, {INT, VAL}),
        /*37*/ sig2<int &, int>({INT, REF}, {INT, VAL}),
        /*38*/ sig2<const std::string &, const std::string &>({STR, CREF}, {STR, CREF}),
        /*39*/ sig2<std::shared_ptr<Base6>, std::shared_ptr<Base6>>({BASE, SP}, {BASE, SP}),
        /*40*/ sig1_throwing<const Base6 &>({BASE, CREF}),
        /*41*/ sig1_throwing<int>({INT, VAL}),
        /*42*/ sig1_throwing<const std::string &>({STR, CREF}),
        /*43*/ sig1<std::string &&>({STR, RREF}),
        /*44*/ sig1<int &&>({INT, RREF}),
        /*45*/ sig1<const std::function<int(int, int)> &>({FN2, CREF}),
        /*46*/ sig2<const std::function<int(int, int)> &, int>({FN2, CREF}, {INT, VAL}),
        /*47*/ sig2<const std::function<int(int)> &, int>({FN, CREF}, {INT, VAL}),
        // never generated: body raises bad_boxed_cast itself — known finding C06-K1 (always the LAST entry)
        /*48*/ sig1_throwing<const Base6 &, true>({BASE, CREF}),
    };
    return c;
  }

  // ---- script values
  struct Arg {
    const char *expr;
    Ty ty;
    bool is_const;
    bool shared_held; // can be handed out as shared_ptr
    const char *value; // descriptor a same-type parameter would log
    double num;        // numeric value for arithmetic conversions
  };
  // actor-local variables are declared by every actor at start (values fixed, ids distinct per kind)
  const std::vector<Arg> &arg_pool() {
    static const std::vector<Arg> a = {
        {"5", INT, true, true, "int:5", 5},
        {"vi", INT, false, true, "int:7", 7},
        {"2.5", DBL, true, true, "double:2.5", 2.5},
        {"vd", DBL, false, true, "double:1.5", 1.5},
        {"true", BOOL, true, true, "bool:1", 1},
        {"\"lit\"", STR, true, true, "string:lit", 0},
        {"vs", STR, false, true, "string:abc", 0},
        {"vb", BASE, false, true, "obj:11", 0},
        {"vder", DERIVED, false, true, "obj:22", 0},
        {"voth", OTHER, false, true, "other:33", 0},
        {"const_base()", BASE, true, false, "obj:44", 0},
        {"[1, 2]", VEC, false, true, "vec:2", 0},
        {"fun(x) { x + 1 }", FN, false, true, "fn:4", 0},
        {"fun(x) { \"s\" }", FN, false, true, "fn:bad_boxed_cast", 0},
        // a one-byte signed value below zero (no parameter of the catalogue has this type: it only
        // arrives through arithmetic conversion, which must keep its value)
        {"neg_char()", CHR, false, true, "char:-61", -61},
        {"fun(x) { neg_char() }", FN, false, true, "fn:-61", 0},
        // a declared but never assigned variable: no type at all; only a Boxed_Value parameter may receive it
        {"vu", UNDEF, false, false, "undefined", 0},
        // script functions by arity: a std::function<int(int)> parameter takes the one-parameter ones, std::function<int(int,int)>
        // the two-parameter ones; a bound function counts by the placeholders it leaves open, not by what it wraps
        {"fun(x, y) { x + y }", FN2, false, true, "fn2:7", 0},
        {"bind(fun(x, y) { x + y }, _, 5)", FN, false, true, "fn:8", 0},
        {"bind(fun(x, y, z) { x + y + z }, _, 1, _)", FN2, false, true, "fn2:8", 0},
        {"bind(fun(x, y) { x * y }, 2, _)", FN, false, true, "fn:6", 0},
        // adjacent placeholders followed by a bound value: each open position takes the call argument of its rank
        {"bind(fun(x, y, z) { x * 100 + y * 10 + z }, _, _, 9)", FN2, false, true, "fn2:349", 0},
        {"bind(fun(w, x, y, z) { w * 1000 + x * 100 + y * 10 + z }, 7, _, _, 9)", FN2, false, true, "fn2:7349", 0},
        // a shared_ptr-held object the actor re-seats now and then through a C++ function taking shared_ptr<Base>&
        {"vrs", BASE, false, true, "obj:@", 0},
        // a value of a type with a user-defined conversion to Other: the callee works on a temporary made for this call
        {"src6()", SRC, false, false, "src:66", 0},
    };
    return a;
  }
  const char *ACTOR_PRELUDE = "var vu; var vi = 7; var vd = 1.5; var vs = \"abc\"; var vb = Base(11); var vder = Derived(22); var voth = Other(33); var vrs = Base(55);";

  bool arithmetic(Ty t) { return t == INT || t == DBL || t == CHR; }

  // may a parameter (ty, form) legitimately receive this argument?  conv = Derived->Base registered
  // expected_out: the descriptor the function must then log
  // strict_const: also demand that a const value is not handed out through a mutable form.  The
  // property (C06) is about types; const-ness is property C07's subject, so entries are judged
  // without it (soundness side) while "this call must succeed" is only demanded with it.
  bool allowed(const Param &p, const Arg &a, bool conv, std::string &expected, bool strict_const = false) {
    expected.clear();
    if (p.ty == ANY) {
      expected = "any:*";
      return true;
    }
    if (p.ty == NUM) {
      expected = "num:*";
      return arithmetic(a.ty);
    }
    if (a.ty == UNDEF) {
      return false; // (the Boxed_Value catch-all was accepted above)
    }
    // an rvalue reference is moved from: handing a const value to it is refused whatever the tier of strictness
    const bool needs_mutable = ((p.form == REF || p.form == PTR || p.form == SP) && strict_const) || p.form == RREF;
    const bool needs_shared = p.form == SP || p.form == SPC;
    if (p.ty == a.ty) {
      if (needs_mutable && a.is_const) {
        return false;
      }
      if (needs_shared && !a.shared_held) {
        return false;
      }
      expected = a.value;
      return true;
    }
    if (arithmetic(p.ty) && arithmetic(a.ty)) {
      // an arithmetic conversion produces a fresh (non-const) temporary of the parameter's type,
      // which may be handed out in any parameter form
      expected = p.ty == INT ? desc(int(a.num)) : desc(double(a.num));
      return true;
    }
    if (p.ty == OTHER && a.ty == SRC) {
      // the user conversion yields a fresh Other(1066) that lives for the duration of the call
      if (needs_shared || p.form == RREF) {
        return false;
      }
      expected = "other:1066";
      return true;
    }
    if (p.ty == BASE && a.ty == DERIVED && conv) {
      if (needs_mutable && a.is_const) {
        return false;
      }
      expected = a.value;
      return true;
    }
    return false;
  }
  bool exact(const Param &p, const Arg &a) {
    std::string e;
    return p.ty == a.ty && allowed(p, a, false, e, true);
  }

  struct OpResult {
    uint64_t inv = 0, ret = 0;
    std::string out;
    std::vector<Entry> entries;
  };

  class C06 : public World {
  public:
    const char *id() const override { return "C06"; }

    J generate(uint64_t run_seed, const std::string &tier) override {
      Rng plan(mix(run_seed, 1)), sched(mix(run_seed, 3));
      const bool thorough = tier == "thorough";
      J p = J::object();
      const int T = int(plan.range(1, 3));
      p["actors"] = J(T);
      const int n_names = int(plan.range(1, 3));
      const int n = int(plan.range(6, thorough ? 40 : 30));
      J &ops = p["ops"];
      ops = J::array();
      const size_t ncat = catalogue().size() - 1; // the last signature only appears in the known-finding replay
      const size_t nargs = arg_pool().size();
      bool conv_planned = false;
      int fetches = 0;
      std::vector<std::vector<int>> planned(static_cast<size_t>(n_names));
      for (int i = 0; i < n; ++i) {
        J op = J::object();
        op["a"] = J(int(plan.below(uint64_t(T))));
        const int k = int(plan.below(i < 3 ? 3 : 14));
        if (k < 3) {
          op["k"] = J("reg");
          op["name"] = J(int(plan.below(uint64_t(n_names))));
          op["sig"] = J(int(plan.below(ncat)));
          planned[size_t(op.at("name").num())].push_back(int(op.at("sig").num()));
        } else if (k == 3 && !conv_planned) {
          op["k"] = J("conv");
          conv_planned = true;
        } else if (k == 4) {
          op["k"] = J("fetch");
          op["name"] = J(int(plan.below(uint64_t(n_names))));
          op["slot"] = J(fetches++ % 2);
        } else if (k == 5 && fetches > 0) {
          op["k"] = J("callfetched");
          op["slot"] = J(int(plan.below(2)));
          op["args"] = J::array();
          op["args"].push(J(int(plan.below(nargs))));
        } else if (k == 7 && plan.chance(500)) {
          op["k"] = J("reseat"); // the actor's variable vrs is made to point at a new object
        } else if (k == 6) {
          op["k"] = J("cast");
          op["arg"] = J(int(plan.below(nargs)));
          op["to"] = J(int(plan.below(12)));
        } else {
          op["k"] = J("call");
          const int name = int(plan.below(uint64_t(n_names)));
          op["name"] = J(name);
          J args = J::array();
          if (!planned[size_t(name)].empty() && plan.chance(650)) {
            // aim at one of the overloads planned for this name: arguments that some relation admits
            const Sig &sg = catalogue()[size_t(plan.pick(planned[size_t(name)]))];
            for (const Param &pp : sg.params) {
              std::vector<int> fits;
              for (size_t ai = 0; ai < nargs; ++ai) {
                std::string e;
                if (allowed(pp, arg_pool()[ai], true, e)) {
                  fits.push_back(int(ai));
                }
              }
              args.push(J(fits.empty() ? int(plan.below(nargs)) : plan.pick(fits)));
            }
          } else {
            const int arity = plan.chance(700) ? 1 : (plan.chance(850) ? 2 : int(plan.below(4)));
            for (int q = 0; q < arity; ++q) {
              args.push(J(int(plan.below(nargs))));
            }
          }
          op["args"] = args;
        }
        ops.push(std::move(op));
      }
      p["sched"] = gen_sched(sched, T, uint64_t(n) * 10);
      return p;
    }

    RunResult execute(const J &plan) override {
      warm_up();
      RunResult r;
      const int T = int(plan.at("actors").num(1));
      const J &ops = plan.at("ops");
      const auto &cat = catalogue();
      const auto &args = arg_pool();
      auto chai = make_engine();
      Engine &e = *chai;
      std::vector<ActorLog> logs(size_t(T) + 1);
      g_logs = logs.data();
      static Base6 the_const_base(44);
      e.add(user_type<Base6>(), "Base");
      e.add(constructor<Base6(int)>(), "Base");
      e.add(user_type<Derived6>(), "Derived");
      e.add(constructor<Derived6(int)>(), "Derived");
      e.add(user_type<Other6>(), "Other");
      e.add(constructor<Other6(int)>(), "Other");
      e.add(fun([]() -> const Base6 & { return the_const_base; }), "const_base");
      e.add(fun([]() { return static_cast<char>(-61); }), "neg_char");
      e.add(user_type<Src6>(), "Src");
      e.add(fun([]() { return Src6{66}; }), "src6");
      e.add(type_conversion<Src6, Other6>([](const Src6 &s) { return Other6(s.id + 1000); }));
      e.add(fun([](std::shared_ptr<Base6> &p, int id) { p = std::make_shared<Base6>(id); }), "reseat_base");

      std::vector<std::vector<size_t>> mine(static_cast<size_t>(T));
      for (size_t i = 0; i < ops.size(); ++i) {
        const int a = int(ops[i].at("a").num());
        if (a >= 0 && a < T) {
          mine[size_t(a)].push_back(i);
        }
      }
      std::vector<OpResult> res(ops.size());
      std::atomic<int> next_overload_id{1000};
      std::vector<int> overload_of_op(ops.size(), 0);
      // cast targets for the C++-receives direction
      auto do_cast = [&](int to, const Boxed_Value &bv) -> std::string {
        switch (to) {
        case 0: return desc(e.boxed_cast<int>(bv));
        case 1: return desc(e.boxed_cast<double>(bv));
        case 2: return desc(e.boxed_cast<std::string>(bv));
        case 3: return desc(e.boxed_cast<const Base6 &>(bv));
        case 4: return desc(e.boxed_cast<Base6 &>(bv));
        case 5: return desc(e.boxed_cast<std::shared_ptr<Base6>>(bv));
        case 6: return desc(e.boxed_cast<bool>(bv));
        case 7: return desc(e.boxed_cast<const Derived6 &>(bv));
        case 8: return desc(e.boxed_cast<const Base6 *>(bv));
        case 9: return desc(e.boxed_cast<const int *>(bv));
        case 10: return desc(e.boxed_cast<std::function<int(int)>>(bv));
        default: return desc(e.boxed_cast<std::function<int(int, int)>>(bv));
        }
      };

      auto body = [&](int a) {
        try {
          e.eval(ACTOR_PRELUDE);
        } catch (...) {
        }
        for (size_t oi : mine[size_t(a)]) {
          const J &op = ops[oi];
          const std::string k = op.at("k").str();
          OpScope scope;
          ActorLog &log = logs[size_t(a) + 1];
          log.entries.clear();
          std::string out;
          try {
            if (k == "reg") {
              const int idv = next_overload_id.fetch_add(1);
              overload_of_op[oi] = idv;
              try {
                cat[size_t(op.at("sig").num()) % cat.size()].add(e, "h" + std::to_string(op.at("name").num()), idv);
                out = "registered";
              } catch (const exception::name_conflict_error &) {
                out = "conflict";
              }
            } else if (k == "conv") {
              try {
                e.add(base_class<Base6, Derived6>());
                out = "registered";
              } catch (const exception::conversion_error &) {
                out = "conflict";
              }
            } else if (k == "fetch") {
              out = eval_show(e, (op.at("slot").num() == 0 ? std::string("var") : std::string("var")) + " fo" + std::to_string(op.at("slot").num() % 2) + "_" + std::to_string(oi) + " = h"
                                     + std::to_string(op.at("name").num()) + "; 1");
            } else if (k == "callfetched") {
              // call the most recently fetched function object of this actor in that slot
              std::string var;
              for (size_t q : mine[size_t(a)]) {
                if (q >= oi) {
                  break;
                }
                if (ops[q].at("k").str() == "fetch" && ops[q].at("slot").num() % 2 == op.at("slot").num() % 2 && res[q].out == "=i:1") {
                  var = "fo" + std::to_string(ops[q].at("slot").num() % 2) + "_" + std::to_string(q);
                }
              }
              if (var.empty()) {
                out = "skipped";
              } else {
                out = eval_show(e, var + "(" + args[size_t(op.at("args")[0].num()) % args.size()].expr + ")");
              }
            } else if (k == "reseat") {
              out = eval_show(e, "reseat_base(vrs, " + std::to_string(600 + oi) + ")");
            } else if (k == "cast") {
              const Arg &arg = args[size_t(op.at("arg").num()) % args.size()];
              try {
                Boxed_Value bv = e.eval(arg.expr);
                try {
                  out = "=" + do_cast(int(op.at("to").num()) % 12, bv);
                } catch (const exception::bad_boxed_cast &) {
                  out = "!bad_boxed_cast";
                }
              } catch (...) {
                out = "!!" + describe_current_exception(&e);
              }
            } else {
              std::string s = "h" + std::to_string(op.at("name").num()) + "(";
              for (size_t q = 0; q < op.at("args").size(); ++q) {
                s += (q ? ", " : "") + std::string(args[size_t(op.at("args")[q].num()) % args.size()].expr);
              }
              out = eval_show(e, s + ")");
            }
          } catch (...) {
            out = "!!harness:" + describe_current_exception(&e);
          }
          res[oi].inv = scope.inv;
          res[oi].ret = scope.ret_stamp();
          res[oi].out = out;
          res[oi].entries = log.entries;
          sim_log(6, uint64_t(oi), fnv1a(out));
        }
      };
      ActorRun ar = run_actors(plan.at("sched"), T, body, r);
      g_logs = nullptr;
      r.event_hash = ar.stats.event_hash;
      r.recorded_sched = ar.recorded;
      if (ar.result != SIM_OK) {
        chai.release();
        r.nontrivial = true;
        return r;
      }

      // ---- oracle
      struct RegInfo {
        size_t op;
        int name, sig, overload;
        bool ok;
      };
      std::vector<RegInfo> regs;
      uint64_t conv_inv = ~0ULL, conv_ret = ~0ULL;
      for (size_t oi = 0; oi < ops.size(); ++oi) {
        const J &op = ops[oi];
        if (int(op.at("a").num()) >= T) {
          continue;
        }
        if (op.at("k").str() == "reg") {
          regs.push_back(RegInfo{oi, int(op.at("name").num()), int(size_t(op.at("sig").num()) % cat.size()), overload_of_op[oi], res[oi].out == "registered"});
        } else if (op.at("k").str() == "conv" && res[oi].out == "registered") {
          conv_inv = std::min(conv_inv, res[oi].inv);
          conv_ret = std::min(conv_ret, res[oi].ret);
        }
      }
      auto sig_of_overload = [&](int ov) -> const RegInfo * {
        for (auto &ri : regs) {
          if (ri.overload == ov) {
            return &ri;
          }
        }
        return nullptr;
      };
      // which object the actor's re-seatable variable refers to when each of its operations runs
      std::vector<int> vrs_id(ops.size(), 55);
      {
        std::vector<int> cur(size_t(T), 55);
        for (size_t oi = 0; oi < ops.size(); ++oi) {
          const int a = int(ops[oi].at("a").num());
          if (a < 0 || a >= T) {
            continue;
          }
          vrs_id[oi] = cur[size_t(a)];
          if (ops[oi].at("k").str() == "reseat") {
            if (res[oi].out == "=void") {
              cur[size_t(a)] = int(600 + oi);
              r.counters["probe_shared_ptr_variable_reseated"] += 1;
            } else {
              r.fail("unexpected-result", "op " + std::to_string(oi) + " reseat_base(vrs, ..) -> " + res[oi].out);
            }
          }
        }
      }
      for (size_t oi = 0; oi < ops.size(); ++oi) {
        const J &op = ops[oi];
        const int a = int(op.at("a").num());
        if (a < 0 || a >= T) {
          continue;
        }
        const std::string k = op.at("k").str();
        const OpResult &R = res[oi];
        auto fix = [&](std::string &expected) {
          if (expected == "obj:@") {
            expected = "obj:" + std::to_string(vrs_id[oi]);
          }
        };
        auto bad = [&](const std::string &rule, const std::string &why) { r.fail(rule, "op " + std::to_string(oi) + " " + op.dump() + " -> " + R.out + ": " + why); };
        if (k == "cast") {
          const Arg &arg = args[size_t(op.at("arg").num()) % args.size()];
          static const Param targets[12] = {{INT, VAL}, {DBL, VAL}, {STR, VAL}, {BASE, CREF}, {BASE, REF}, {BASE, SP}, {BOOL, VAL}, {DERIVED, CREF}, {BASE, CPTR}, {INT, CPTR}, {FN, VAL}, {FN2, VAL}};
          const Param &tp = targets[op.at("to").num() % 12];
          std::string expected;
          // the conversion may have been registered at any time up to the end of this cast
          const bool conv_possible = conv_inv <= R.ret;
          const bool conv_certain = conv_ret < R.inv;
          if (R.out.rfind("!!", 0) == 0) {
            bad("cast-raised-something-else", "evaluating the value or casting raised neither a value nor bad_boxed_cast");
          } else if (R.out[0] == '=') {
            if (!allowed(tp, arg, conv_possible, expected)) {
              bad("cast-handed-out-wrong-type", std::string("boxed_cast<") + form_names[tp.form] + " of " + ty_names[tp.ty] + "> succeeded on a " + (arg.is_const ? "const " : "") + ty_names[arg.ty]);
            } else if (fix(expected), R.out.substr(1) != expected) {
              bad("cast-value-differs", "expected " + expected);
            }
            r.counters["casts_succeeded"] += 1;
          } else {
            // identity (and a registered base conversion) must succeed
            if (allowed(tp, arg, conv_certain, expected, true) && (tp.ty == arg.ty)) {
              bad("cast-refused-actual-type", "boxed_cast to the value's own type threw bad_boxed_cast");
            }
            r.counters["casts_refused"] += 1;
          }
          continue;
        }
        if (k != "call" && k != "callfetched") {
          continue;
        }
        if (R.out == "skipped") {
          continue;
        }
        std::vector<const Arg *> call_args;
        for (size_t q = 0; q < op.at("args").size(); ++q) {
          call_args.push_back(&args[size_t(op.at("args")[q].num()) % args.size()]);
        }
        const bool succeeded = R.out[0] == '=';
        if (R.out.rfind("!!", 0) == 0) {
          bad("harness-error", "unexpected exception in the harness");
          continue;
        }
        bool body_threw = false;
        for (auto &en : R.entries) {
          body_threw = body_threw || en.threw;
        }
        if (body_threw) {
          r.counters["probe_entered_body_raised_bad_cast"] += 1;
          if (R.entries.size() != 1 || succeeded || R.out.find("bad_cast") == std::string::npos) {
            bad("exception-of-entered-body-not-delivered", std::to_string(R.entries.size()) + " overloads were entered after the first one's body raised std::bad_cast; the call must fail with that exception and enter nothing else");
          }
          continue;
        }
        if (R.entries.size() != (succeeded ? 1u : 0u)) {
          bad("entries-per-call", std::to_string(R.entries.size()) + " overloads were entered by a call that " + (succeeded ? "succeeded" : "failed"));
          continue;
        }
        r.counters[succeeded ? "calls_entered" : "calls_refused"] += 1;
        const bool conv_possible = conv_inv <= R.ret;
        if (succeeded) {
          const Entry &en = R.entries[0];
          const RegInfo *ri = sig_of_overload(en.overload);
          if (!ri) {
            bad("entered-unknown-overload", "overload id " + std::to_string(en.overload));
            continue;
          }
          if (R.out != "=i:" + std::to_string(en.overload)) {
            bad("result-is-not-the-entered-overloads", "entered overload " + std::to_string(en.overload));
          }
          const Sig &sg = cat[size_t(ri->sig)];
          if (sg.params.size() != call_args.size()) {
            bad("entered-with-wrong-arity", "overload takes " + std::to_string(sg.params.size()) + " parameters");
            continue;
          }
          if (en.received.size() > sg.params.size()) {
            bad("received-value-changed-during-the-call", "parameter 0 first read as " + en.received[0] + ", after other threads ran: " + en.received.back());
          }
          bool all_exact = true;
          for (size_t q = 0; q < call_args.size(); ++q) {
            std::string expected;
            if (!allowed(sg.params[q], *call_args[q], conv_possible, expected)) {
              bad("entered-with-unrelated-argument", std::string("parameter ") + std::to_string(q) + " is " + form_names[sg.params[q].form] + " of " + ty_names[sg.params[q].ty] + ", argument is "
                                                         + (call_args[q]->is_const ? "const " : "") + ty_names[call_args[q]->ty]);
            } else if (fix(expected), expected.find('*') == std::string::npos && en.received[q] != expected) {
              bad("received-value-differs", "parameter " + std::to_string(q) + " received " + en.received[q] + ", the script value is " + expected);
            }
            if (!exact(sg.params[q], *call_args[q])) {
              all_exact = false;
            }
          }
          if (sg.params.size() != 0 && sg.params[0].ty == BASE && call_args[0]->ty == DERIVED) {
            r.counters["probe_entered_through_base_conversion"] += 1;
          }
          if (!all_exact) {
            r.counters["probe_entered_through_conversion_or_catch_all"] += 1;
            // exact-match preference (plain calls only: a fetched function object dispatches over the set of fetch time)
            if (k == "call") {
              for (auto &cand : regs) {
                if (!cand.ok || cand.name != int(op.at("name").num()) || res[cand.op].ret >= R.inv) {
                  continue;
                }
                const Sig &cs = cat[size_t(cand.sig)];
                if (cs.params.size() != call_args.size()) {
                  continue;
                }
                bool ex = true;
                for (size_t q = 0; q < call_args.size(); ++q) {
                  if (!exact(cs.params[q], *call_args[q])) {
                    ex = false;
                  }
                }
                if (ex) {
                  bad("exact-overload-not-chosen", "overload " + std::to_string(cand.overload) + " registered earlier matches the argument types exactly, but " + std::to_string(en.overload) + " was entered");
                  break;
                }
              }
            }
          }
        } else if (k == "call") {
          // a call that an overload registered before it could accept by identity must not fail
          for (auto &cand : regs) {
            if (!cand.ok || cand.name != int(op.at("name").num()) || res[cand.op].ret >= R.inv) {
              continue;
            }
            const Sig &cs = cat[size_t(cand.sig)];
            if (cs.params.size() != call_args.size()) {
              continue;
            }
            bool ex = true;
            for (size_t q = 0; q < call_args.size(); ++q) {
              if (!exact(cs.params[q], *call_args[q])) {
                ex = false;
              }
            }
            if (ex) {
              bad("exact-overload-refused", "overload " + std::to_string(cand.overload) + " matches the argument types exactly and was registered before the call");
              break;
            }
          }
        }
      }
      r.counters["ops"] += int64_t(ops.size());
      r.counters["actors"] += T;
      r.nontrivial = r.counters["calls_entered"] + r.counters["casts_succeeded"] > 0;
      r.distinct_key = fnv1a(ops.dump()) ^ ar.stats.interleaving_hash;
      return r;
    }
  };

  C06 g_c06;
  RegisterWorld reg_c06(&g_c06);
} // namespace
