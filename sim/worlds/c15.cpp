// World C15 — get_state / set_state restore the global environment exactly.
//
// System under simulation: one engine, 1..3 actor threads.  "Chain" operations (def function /
// further overload, global, class, add type, add C++ function, use(file), multi-definition eval
// aborted half-way by a throwing callback, get_state, set_state(any earlier snapshot), actor-local
// declarations) form one history in plan order but are executed by different actors, so every
// per-thread cache meets every state.  "Background" operations are long evaluations that run
// concurrently (interleaved by the seeded scheduler at every lock point) with the chain — in
// particular with a set_state that removes the functions they are calling.
// Oracle: dictionary model {functions: name -> signature -> value, globals, classes, types, C++
// functions, used files} with deep-copied snapshots; after EVERY chain operation the acting actor
// probes every name of the pools and compares with the model; locals of every actor are untouched
// by restores; background evaluations finish with a value or a clean eval_error.
#include "simworld.hpp"

#include <atomic>
#include <set>
#include <sys/stat.h>
#include <unistd.h>

using namespace verif;
using namespace chaiscript;

namespace {

  template<int N>
  struct TypeTag {
    int v = N;
  };

  constexpr int N_FN = 4, N_SIG = 3, N_GLOB = 3, N_CLASS = 3, N_TYPE = 3, N_CFN = 2, N_FILE = 2, N_LOCAL = 3;
  const char *sig_types[N_SIG] = {"int", "string", "Vector"};
  const char *sig_args[N_SIG] = {"1", "\"a\"", "[1]"};

  struct Model {
    std::map<int, std::map<int, int64_t>> fns; // fn -> sig -> value
    std::map<int, int64_t> globs, classes, cfns;
    std::set<int> types, files;
    int64_t method_missing = -1; // value returned by the script-defined method_missing for ints, -1 = not defined
    bool module_active = false;     // the loadable module c15mod is active (its function, type and constant are visible)
    bool convmodule_active = false; // the same for c15modconv, the module that also registers a base-class conversion
  };

  class C15 : public World {
  public:
    const char *id() const override { return "C15"; }

    J generate(uint64_t run_seed, const std::string &tier) override {
      Rng plan(mix(run_seed, 1)), sched(mix(run_seed, 3));
      const bool thorough = tier == "thorough";
      J p = J::object();
      const int T = int(plan.range(1, 3));
      p["actors"] = J(T);
      const int n = int(plan.range(5, thorough ? 40 : 30));
      J &ops = p["ops"];
      ops = J::array();
      int snaps = 0;
      int v = 100;
      for (int i = 0; i < n; ++i) {
        J op = J::object();
        op["a"] = J(int(plan.below(uint64_t(T))));
        const int k = int(plan.below(29));
        switch (k) {
        case 0:
        case 1:
        case 2:
          op["k"] = J("def");
          op["f"] = J(int(plan.below(N_FN)));
          op["s"] = J(int(plan.below(N_SIG)));
          op["v"] = J(v++);
          break;
        case 3:
          // a new global, or (host API) set_global: an existing global is REPLACED by a new object - unlike an
          // assignment to it (known finding C15-K2) this must not reach into snapshots taken earlier
          op["k"] = J(plan.chance(350) ? "set_global" : "global");
          op["g"] = J(int(plan.below(N_GLOB)));
          op["v"] = J(v++);
          break;
        case 4:
          op["k"] = J("class");
          op["c"] = J(int(plan.below(N_CLASS)));
          op["v"] = J(v++);
          break;
        case 5:
          op["k"] = J("type");
          op["t"] = J(int(plan.below(N_TYPE)));
          break;
        case 6:
          op["k"] = J("cfn");
          op["c"] = J(int(plan.below(N_CFN)));
          op["v"] = J(v++);
          break;
        case 7:
        case 8:
          op["k"] = J("use");
          op["u"] = J(int(plan.below(N_FILE)));
          break;
        case 9:
          op["k"] = J("multi");
          op["f"] = J(int(plan.below(N_FN)));
          op["f2"] = J(int(plan.below(N_FN)));
          op["v"] = J(v);
          v += 2;
          break;
        case 10:
        case 11:
        case 12:
          op["k"] = J("get_state");
          ++snaps;
          break;
        case 13:
        case 14:
        case 15:
        case 16:
          if (snaps == 0) {
            op["k"] = J("get_state");
            ++snaps;
          } else {
            op["k"] = J("set_state");
            op["i"] = J(int(plan.below(uint64_t(snaps))));
          }
          break;
        case 27:
        case 28:
          // the host loads a binary extension module (a no-op while it is active): one without, one with a conversion
          op["k"] = J(plan.chance(500) ? "loadmod" : "loadmodconv");
          break;
        case 17:
          op["k"] = J("local");
          op["l"] = J(int(plan.below(N_LOCAL)));
          op["v"] = J(v++);
          break;
        case 18:
          op["k"] = J("bg");
          op["f"] = J(int(plan.below(N_FN)));
          op["n"] = J(int(plan.range(5, 40)));
          break;
        case 19:
        case 22:
        case 23:
          op["k"] = J("bg_use"); // use() of the two-part file, free-running: may overlap get_state / set_state of the chain
          break;
        case 26:
          op["k"] = J("bg_addtype"); // add(user_type, name) free-running: two registry steps that a snapshot may fall between
          break;
        case 24:
          op["k"] = J("def_mm"); // a method_missing handler for ints: answers every member call nothing else matches
          op["v"] = J(v++);
          break;
        default:
          op["k"] = J("use2check");
          break;
        }
        ops.push(std::move(op));
      }
      // directed scenario (swarm bias: put the snapshot where in-flight state exists): a background
      // use() of the two-part file by one actor, a snapshot by another actor right then, a restore of
      // exactly that snapshot later, and the consistency check
      if (T >= 2 && plan.chance(350)) {
        const int x = int(plan.below(uint64_t(T)));
        const int y = (x + 1 + int(plan.below(uint64_t(T - 1)))) % T;
        auto mk = [&](int a, const char *k) {
          J op = J::object();
          op["a"] = J(a);
          op["k"] = J(k);
          return op;
        };
        ops.push(mk(x, "bg_use"));
        ops.push(mk(y, "get_state"));
        const int snap_index = snaps++;
        J d = mk(y, "def");
        d["f"] = J(int(plan.below(N_FN)));
        d["s"] = J(int(plan.below(N_SIG)));
        d["v"] = J(v++);
        ops.push(d);
        J ss = mk(y, "set_state");
        ss["i"] = J(snap_index);
        ops.push(ss);
        ops.push(mk(y, "use2check"));
      }
      p["sched"] = gen_sched(sched, T, uint64_t(n) * 40);
      return p;
    }

    RunResult execute(const J &plan) override {
      warm_up();
      RunResult r;
      const int T = int(plan.at("actors").num(1));
      const J &ops = plan.at("ops");
      const std::string dir = run_dir() + "/c15/";
      ::mkdir(dir.c_str(), 0777);
      for (int u = 0; u < N_FILE; ++u) {
        write_file(dir + "u" + std::to_string(u) + ".chai", "bump(" + std::to_string(u) + ")\ndef from_u" + std::to_string(u) + "() { " + std::to_string(7000 + u) + " }\n");
      }
      // a file in two parts with a scheduling point in between: a snapshot must never contain half of it
      write_file(dir + "two_part.chai", "def from_part_a() { 1 }\nyield_here()\ndef from_part_b() { 2 }\n");
      auto chai = make_engine({dir});
      Engine &e = *chai;
      std::atomic<int> bumps[N_FILE];
      for (auto &b : bumps) {
        b.store(0);
      }
      e.add(fun([&bumps](int u) { bumps[u % N_FILE].fetch_add(1); }), "bump");
      e.add(fun([]() -> int { throw std::runtime_error("boom"); }), "boom");
      e.add(fun([]() {
              for (int i = 0; i < 8; ++i) {
                sim_yield(7, nullptr); // a wide window in the middle of the file
              }
            }),
            "yield_here");

      // long-lived code: defined once, before every snapshot, and evaluated after every chain operation. Its call
      // nodes keep whatever they remember about the function table across restores and re-definitions in other orders
      for (int f = 0; f < N_FN; ++f) {
        for (int s = 0; s < N_SIG; ++s) {
          e.eval("def via_f" + std::to_string(f) + "_s" + std::to_string(s) + "() { return f" + std::to_string(f) + "(" + sig_args[s] + ") }");
        }
      }
      for (int g = 0; g < N_GLOB; ++g) {
        e.eval("def via_g" + std::to_string(g) + "() { return g" + std::to_string(g) + " }");
      }

      // the binary module lives next to the simulator binary (built per flavour by the Makefile)
      std::string module_path;
      {
        char buf[4096];
        const ssize_t n = ::readlink("/proc/self/exe", buf, sizeof(buf) - 1);
        module_path = n > 0 ? std::string(buf, size_t(n)) : std::string("./simrun");
        module_path = module_path.substr(0, module_path.rfind('/') + 1) + "libc15mod.so";
      }

      Model model;
      std::vector<Model> snap_models;
      std::vector<Engine::State> snap_states;
      std::vector<std::map<int, int64_t>> locals(static_cast<size_t>(T));

      // chain dependencies: every non-background op waits for the previous non-background op
      std::vector<std::atomic<int>> done(ops.size());
      for (auto &d : done) {
        d.store(0);
      }
      std::vector<int> dep(ops.size(), -1);
      {
        int last = -1;
        for (size_t i = 0; i < ops.size(); ++i) {
          if (ops[i].at("k").str() != "bg" && ops[i].at("k").str() != "bg_use" && ops[i].at("k").str() != "bg_addtype") {
            dep[i] = last;
            last = int(i);
          }
        }
      }
      std::vector<std::vector<size_t>> mine(static_cast<size_t>(T));
      for (size_t i = 0; i < ops.size(); ++i) {
        const int a = int(ops[i].at("a").num());
        if (a >= 0 && a < T) {
          mine[size_t(a)].push_back(i);
        } else {
          done[i].store(1);
        }
      }
      std::vector<std::string> fail(static_cast<size_t>(T));
      std::vector<std::map<std::string, int64_t>> cnt(static_cast<size_t>(T));
      std::atomic<int> chain_in_progress{0};
      std::atomic<int> bg_types_in_flight{0};
      std::atomic<int> bg_type_events{0}; // bumped when a background registration starts and when it ends

      auto is_err = [](const std::string &out) { return out.rfind("!eval_error|", 0) == 0; };

      auto body = [&](int a) {
        auto bad = [&](size_t oi, const std::string &rule, const std::string &what) {
          if (fail[size_t(a)].empty()) {
            fail[size_t(a)] = rule + "\x01" + "op " + std::to_string(oi) + " " + ops[oi].dump() + " by actor " + std::to_string(a) + ": " + what;
          }
        };
        // compare every observable with the model
        auto probe_all = [&](size_t oi) {
          for (int f = 0; f < N_FN; ++f) {
            const std::string name = "f" + std::to_string(f);
            const bool exists = model.fns.count(f) && !model.fns[f].empty();
            const std::string fe = eval_show(e, "function_exists(\"" + name + "\")");
            if (fe != (exists ? "=true" : "=false")) {
              bad(oi, "function_exists-differs-from-model", name + ": " + fe);
            }
            for (int s = 0; s < N_SIG; ++s) {
              const std::string out = eval_show(e, name + "(" + sig_args[s] + ")");
              const bool have = exists && model.fns[f].count(s);
              if (have ? out != "=i:" + std::to_string(model.fns[f][s]) : !is_err(out)) {
                bad(oi, "function-overload-differs-from-model", name + "(" + sig_args[s] + ") -> " + out + ", model: " + (have ? std::to_string(model.fns[f][s]) : std::string("absent")));
              }
              const std::string via = eval_show(e, "via_f" + std::to_string(f) + "_s" + std::to_string(s) + "()");
              if (have ? via != "=i:" + std::to_string(model.fns[f][s]) : !is_err(via)) {
                bad(oi, "function-overload-differs-from-model", "through the long-lived caller via_f" + std::to_string(f) + "_s" + std::to_string(s) + "(): " + name + "(" + sig_args[s] + ") -> " + via
                            + ", model: " + (have ? std::to_string(model.fns[f][s]) : std::string("absent")));
              }
            }
          }
          for (int g = 0; g < N_GLOB; ++g) {
            const std::string out = eval_show(e, "g" + std::to_string(g));
            const bool have = model.globs.count(g) != 0;
            if (have ? out != "=i:" + std::to_string(model.globs[g]) : !is_err(out)) {
              bad(oi, "global-differs-from-model", "g" + std::to_string(g) + " -> " + out + ", model: " + (have ? std::to_string(model.globs[g]) : std::string("absent")));
            }
            const std::string via = eval_show(e, "via_g" + std::to_string(g) + "()");
            if (have ? via != "=i:" + std::to_string(model.globs[g]) : !is_err(via)) {
              bad(oi, "global-differs-from-model", "through the long-lived reader via_g" + std::to_string(g) + "(): -> " + via + ", model: " + (have ? std::to_string(model.globs[g]) : std::string("absent")));
            }
          }
          for (int c = 0; c < N_CLASS; ++c) {
            const std::string out = eval_show(e, "K" + std::to_string(c) + "(1).get()");
            const bool have = model.classes.count(c) != 0;
            if (have ? out != "=i:" + std::to_string(model.classes[c] + 1) : !is_err(out)) {
              bad(oi, "class-differs-from-model", "K" + std::to_string(c) + "(1).get() -> " + out + ", model: " + (have ? std::to_string(model.classes[c] + 1) : std::string("absent")));
            }
          }
          for (int t = 0; t < N_TYPE; ++t) {
            const std::string out = eval_show(e, "type(\"Ty" + std::to_string(t) + "\", false).is_type_undef()");
            const bool have = model.types.count(t) != 0;
            if (out != (have ? "=false" : "=true")) {
              bad(oi, "type-differs-from-model", "Ty" + std::to_string(t) + " undefined? " + out + ", model: " + (have ? "registered" : "absent"));
            }
          }
          for (int c = 0; c < N_CFN; ++c) {
            const std::string out = eval_show(e, "cf" + std::to_string(c) + "(0)");
            const bool have = model.cfns.count(c) != 0;
            if (have ? out != "=i:" + std::to_string(model.cfns[c]) : !is_err(out)) {
              bad(oi, "cpp-function-differs-from-model", "cf" + std::to_string(c) + "(0) -> " + out);
            }
          }
          for (int u = 0; u < N_FILE; ++u) {
            const std::string out = eval_show(e, "from_u" + std::to_string(u) + "()");
            const bool have = model.files.count(u) != 0;
            if (have ? out != "=i:" + std::to_string(7000 + u) : !is_err(out)) {
              bad(oi, "used-file-function-differs-from-model", "from_u" + std::to_string(u) + "() -> " + out);
            }
          }
          {
            // the loadable module: its function, its type name and its constant are visible iff it is active in this state
            const std::string mf = eval_show(e, "mod_fn() + mod_const");
            const std::string mt = eval_show(e, "type(\"ModThing\", false).is_type_undef()");
            if (model.module_active ? (mf != "=i:62675" || mt != "=false") : (!is_err(mf) || mt != "=true")) {
              bad(oi, "module-differs-from-model", "mod_fn() + mod_const -> " + mf + ", ModThing undefined? " + mt + ", model: module " + (model.module_active ? "active" : "not active"));
            }
            const std::string cf = eval_show(e, "modconv_fn() + modconv_const");
            if (model.convmodule_active ? cf != "=i:82675" : !is_err(cf)) {
              bad(oi, "module-differs-from-model", "modconv_fn() + modconv_const -> " + cf + ", model: module with a conversion " + (model.convmodule_active ? "active" : "not active"));
            }
          }
          const int type_events_before = bg_type_events.load();
          if (bg_types_in_flight.load() == 0) {
            // a registered type consists of the global <name>_type and the entry in the type table: whatever
            // snapshots and restores happened while it was being registered, the state holds both or neither
            const bool has_global = eval_show(e, "TyBG_type").rfind("!eval_error|Can not find object", 0) != 0;
            const bool has_type = eval_show(e, "type(\"TyBG\", false).is_type_undef()") == "=false";
            // (the two observations are only comparable if no background registration ran between them)
            if (has_global != has_type && bg_type_events.load() == type_events_before) {
              bad(oi, "type-half-registered", std::string("global TyBG_type ") + (has_global ? "present" : "absent") + " but type table entry " + (has_type ? "present" : "absent"));
            }
          }
          {
            // an unmatched member call on an int: answered by method_missing iff the state has one
            const std::string out = eval_show(e, "1.no_such_member_zz()");
            if (model.method_missing >= 0 ? out != "=i:" + std::to_string(model.method_missing) : !is_err(out)) {
              bad(oi, "method_missing-differs-from-model", "1.no_such_member_zz() -> " + out + ", model: " + (model.method_missing >= 0 ? std::to_string(model.method_missing) : std::string("absent")));
            }
          }
          // per-thread locals are not part of the state
          std::string got = "locals", want = "locals";
          for (auto &kv : e.get_locals()) {
            got += " " + kv.first + "=" + show(kv.second, &e);
          }
          for (auto &kv : locals[size_t(a)]) {
            want += " l" + std::to_string(kv.first) + "=i:" + std::to_string(kv.second);
          }
          if (got != want) {
            bad(oi, "locals-disturbed", got + " vs model " + want);
          }
        };

        for (size_t oi : mine[size_t(a)]) {
          const J &op = ops[oi];
          const std::string k = op.at("k").str();
          if (k == "bg_addtype") {
            OpScope scope;
            bg_types_in_flight.fetch_add(1);
            bg_type_events.fetch_add(1);
            std::string out;
            try {
              e.add(user_type<TypeTag<9>>(), "TyBG");
              out = "added";
            } catch (const exception::name_conflict_error &) {
              out = "conflict";
            } catch (...) {
              out = "!" + describe_current_exception(&e);
              bad(oi, "background-eval-unclean", out);
            }
            bg_type_events.fetch_add(1);
            bg_types_in_flight.fetch_sub(1);
            cnt[size_t(a)]["probe_background_type_registration"] += 1;
            sim_log(3, uint64_t(oi), fnv1a(out));
            done[oi].store(1);
            continue;
          }
          if (k == "bg_use") {
            OpScope scope;
            const bool overlapping = chain_in_progress.load() != 0;
            const std::string out = eval_show(e, "use(\"two_part.chai\")");
            // a concurrent set_state may remove part a between the two definitions, or restore a state in
            // which they exist already: both make the evaluation fail cleanly; anything else is not clean
            if (out[0] != '=' && !is_err(out) && out.rfind("!Boxed_Value|eval_error", 0) != 0) {
              bad(oi, "background-eval-unclean", out);
            }
            if (overlapping) {
              cnt[size_t(a)]["probe_background_use_overlapped_chain_op"] += 1;
            }
            sim_log(3, uint64_t(oi), fnv1a(out.substr(0, 1)));
            done[oi].store(1);
            continue;
          }
          if (k == "bg") {
            // free-running evaluation, concurrent with the chain
            OpScope scope;
            const bool overlapping = chain_in_progress.load() != 0;
            const std::string f = "f" + std::to_string(op.at("f").num() % N_FN);
            const std::string out = eval_show(e, "fun() { var acc = 0; for (var i = 0; i < " + std::to_string(op.at("n").num()) + "; ++i) { acc += " + f + "(1) }; return acc }()");
            if (out.rfind("=i:", 0) != 0 && !is_err(out)) {
              bad(oi, "background-eval-unclean", out);
            }
            if (overlapping) {
              cnt[size_t(a)]["probe_background_eval_overlapped_chain_op"] += 1;
            }
            sim_log(3, uint64_t(oi), fnv1a(out.substr(0, 3)));
            done[oi].store(1);
            continue;
          }
          if (dep[oi] >= 0) {
            while (!done[size_t(dep[oi])].load()) {
              sim_block(&done[size_t(dep[oi])]);
            }
          }
          {
            OpScope scope;
            chain_in_progress.fetch_add(1);
            std::string out;
            auto num = [&](const char *fld) { return op.at(fld).num(); };
            if (k == "def") {
              const int f = int(num("f")) % N_FN, s = int(num("s")) % N_SIG;
              out = eval_show(e, "def f" + std::to_string(f) + "(" + sig_types[s] + " x) { " + std::to_string(num("v")) + " }");
              if (model.fns[f].count(s)) {
                if (out.rfind("!eval_error|Function redefined", 0) != 0) {
                  bad(oi, "redefinition-not-rejected", out);
                }
              } else {
                if (out != "=void") {
                  bad(oi, "definition-rejected", out + " although the model has no such overload (it may have been removed by set_state and must be addable again)");
                }
                model.fns[f][s] = num("v");
              }
            } else if (k == "global") {
              const int g = int(num("g")) % N_GLOB;
              if (!model.globs.count(g)) {
                out = eval_show(e, "global g" + std::to_string(g) + " = " + std::to_string(num("v")));
                if (out != "=i:" + std::to_string(num("v"))) {
                  bad(oi, "definition-rejected", out);
                }
                model.globs[g] = num("v");
              }
            } else if (k == "set_global") {
              const int g = int(num("g")) % N_GLOB;
              try {
                e.set_global(chaiscript::var(int(num("v"))), "g" + std::to_string(g));
                model.globs[g] = num("v");
              } catch (...) {
                bad(oi, "definition-rejected", "set_global threw " + describe_current_exception(&e));
              }
            } else if (k == "global_assign") {
              // never generated (known finding C15-K2): an existing global gets a new value after a snapshot was taken
              const int g = int(num("g")) % N_GLOB;
              if (model.globs.count(g)) {
                out = eval_show(e, "g" + std::to_string(g) + " = " + std::to_string(num("v")));
                if (out != "=i:" + std::to_string(num("v"))) {
                  bad(oi, "definition-rejected", out);
                }
                model.globs[g] = num("v");
              }
            } else if (k == "class") {
              const int c = int(num("c")) % N_CLASS;
              if (!model.classes.count(c)) {
                const std::string cn = "K" + std::to_string(c);
                out = eval_show(e, "class " + cn + " { var v; def " + cn + "(x) { this.v = x + " + std::to_string(num("v")) + " }; def get() { this.v } }");
                if (out != "=void") {
                  bad(oi, "definition-rejected", out);
                }
                model.classes[c] = num("v");
              }
            } else if (k == "type") {
              const int t = int(num("t")) % N_TYPE;
              if (!model.types.count(t)) {
                try {
                  switch (t) {
                  case 0: e.add(user_type<TypeTag<0>>(), "Ty0"); break;
                  case 1: e.add(user_type<TypeTag<1>>(), "Ty1"); break;
                  default: e.add(user_type<TypeTag<2>>(), "Ty2"); break;
                  }
                  out = "added";
                } catch (...) {
                  out = "!" + describe_current_exception(&e);
                  bad(oi, "definition-rejected", out);
                }
                model.types.insert(t);
              }
            } else if (k == "cfn") {
              const int c = int(num("c")) % N_CFN;
              const int val = int(num("v"));
              try {
                e.add(fun([val](int) { return val; }), "cf" + std::to_string(c));
                out = "added";
              } catch (const exception::name_conflict_error &) {
                out = "conflict";
              }
              if (model.cfns.count(c)) {
                if (out != "conflict") {
                  bad(oi, "redefinition-not-rejected", out);
                }
              } else {
                if (out != "added") {
                  bad(oi, "definition-rejected", out);
                }
                model.cfns[c] = val;
              }
            } else if (k == "use") {
              const int u = int(num("u")) % N_FILE;
              const int before = bumps[u].load();
              out = eval_show(e, "use(\"u" + std::to_string(u) + ".chai\")");
              const int after = bumps[u].load();
              if (out[0] != '=') {
                bad(oi, "use-failed", out);
              }
              if (after - before != (model.files.count(u) ? 0 : 1)) {
                bad(oi, "used-file-record-differs-from-model", "file evaluated " + std::to_string(after - before) + " times, model says it was " + (model.files.count(u) ? "already used" : "not used in this state"));
              }
              model.files.insert(u);
            } else if (k == "multi") {
              // two definitions with a throwing call in between: the first is applied, the second is not
              const int f = int(num("f")) % N_FN, f2 = int(num("f2")) % N_FN;
              if (!model.fns[f].count(0) && !(f2 == f) && !model.fns[f2].count(1)) {
                out = eval_show(e, "def f" + std::to_string(f) + "(int x) { " + std::to_string(num("v")) + " }; boom(); def f" + std::to_string(f2) + "(string x) { " + std::to_string(num("v") + 1) + " }");
                if (out.rfind("!", 0) != 0) {
                  bad(oi, "aborted-eval-did-not-raise", out);
                }
                model.fns[f][0] = num("v");
                cnt[size_t(a)]["fault_throw_mid_eval"] += 1;
              }
            } else if (k == "loadmod" || k == "loadmodconv") {
              const bool conv = k == "loadmodconv"; // a module that also registers a conversion (conversions are not part of the state)
              try {
                e.load_module(conv ? "c15modconv" : "c15mod", module_path);
                out = "loaded";
              } catch (...) {
                out = "!" + describe_current_exception(&e);
              }
              if (out != "loaded") {
                bad(oi, "module-differs-from-model", std::string("load_module of a module that is ") + ((conv ? model.convmodule_active : model.module_active) ? "active" : "not active in this state") + " -> " + out);
              }
              (conv ? model.convmodule_active : model.module_active) = true;
              cnt[size_t(a)]["probe_binary_module_loaded"] += 1;
            } else if (k == "get_state") {
              snap_states.push_back(e.get_state());
              snap_models.push_back(model);
              out = "snapshot " + std::to_string(snap_states.size() - 1);
            } else if (k == "set_state") {
              if (!snap_states.empty()) {
                const size_t i = size_t(num("i")) % snap_states.size();
                e.set_state(snap_states[i]);
                model = snap_models[i];
                out = "restored " + std::to_string(i);
                cnt[size_t(a)]["fault_state_restore"] += 1;
                if (i + 1 < snap_states.size()) {
                  cnt[size_t(a)]["probe_restored_older_than_latest_snapshot"] += 1;
                }
              }
            } else if (k == "def_mm") {
              out = eval_show(e, "def method_missing(int i, string name, Vector v) { " + std::to_string(num("v")) + " }");
              if (model.method_missing >= 0) {
                if (out.rfind("!eval_error|Function redefined", 0) != 0) {
                  bad(oi, "redefinition-not-rejected", out);
                }
              } else {
                if (out != "=void") {
                  bad(oi, "definition-rejected", out);
                }
                model.method_missing = num("v");
              }
            } else if (k == "use2check") {
              // whatever snapshots were taken and restored while a background use() was in flight:
              // once use() has returned normally, everything the file defines must be there
              out = eval_show(e, "use(\"two_part.chai\")");
              if (out[0] == '=') {
                const std::string pa = eval_show(e, "from_part_a()"), pb = eval_show(e, "from_part_b()");
                if (pa != "=i:1" || pb != "=i:2") {
                  bad(oi, "used-file-record-without-its-definitions", "use(two_part.chai) returned " + out + " but from_part_a() -> " + pa + ", from_part_b() -> " + pb);
                }
                cnt[size_t(a)]["probe_two_part_file_checked"] += 1;
              } else if (!is_err(out) && out.rfind("!Boxed_Value|eval_error", 0) != 0) {
                bad(oi, "use-failed", out);
              }
            } else if (k == "local") {
              const int l = int(num("l")) % N_LOCAL;
              const std::string name = "l" + std::to_string(l);
              out = eval_show(e, (locals[size_t(a)].count(l) ? "" : "var ") + name + " = " + std::to_string(num("v")));
              locals[size_t(a)][l] = num("v");
              if (out != "=i:" + std::to_string(num("v"))) {
                bad(oi, "locals-disturbed", out);
              }
            }
            probe_all(oi);
            chain_in_progress.fetch_sub(1);
            sim_log(3, uint64_t(oi), fnv1a(out));
          }
          done[oi].store(1);
          sim_unblock_all(&done[oi]);
        }
      };

      ActorRun ar = run_actors(plan.at("sched"), T, body, r);
      r.event_hash = ar.stats.event_hash;
      r.recorded_sched = ar.recorded;
      if (ar.result != SIM_OK) {
        chai.release();
        r.nontrivial = true;
        r.distinct_key = ar.stats.interleaving_hash;
        return r;
      }
      for (int a = 0; a < T; ++a) {
        if (!fail[size_t(a)].empty()) {
          const size_t sep = fail[size_t(a)].find('\x01');
          r.fail(fail[size_t(a)].substr(0, sep), fail[size_t(a)].substr(sep + 1));
        }
        for (auto &kv : cnt[size_t(a)]) {
          r.counters[kv.first] += kv.second;
        }
      }
      r.counters["ops"] += int64_t(ops.size());
      r.counters["actors"] += T;
      r.counters["snapshots"] += int64_t(snap_states.size());
      r.nontrivial = r.counters["fault_state_restore"] > 0;
      uint64_t shape = 0xcbf29ce484222325ULL;
      for (size_t i = 0; i < ops.size(); ++i) {
        shape = fnv1a(ops[i].dump(), shape);
      }
      r.distinct_key = shape ^ ar.stats.interleaving_hash;
      return r;
    }
  };

  C15 g_c15;
  RegisterWorld reg_c15(&g_c15);
} // namespace
