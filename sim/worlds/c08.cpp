// World C08 — evaluating code does not change the code: re-evaluation is deterministic.
//
// System under simulation: one engine holding a pool of generated script functions whose bodies
// build and mutate locals from literals (numbers, strings, inline vectors / maps / ranges, nested
// containers, interpolated strings) and return locals or literals; callers mutate what they get
// back.  Parsed trees (ChaiScript_Basic::parse) are evaluated repeatedly through eval(AST_Node).
// 1..3 actor threads issue the calls k >= 3 times each, interleaved by the seeded scheduler (two
// actors inside the same body at once); a callback inside a body throws on chosen calls and the
// same call is then issued again.
// Oracle: result and trace of EVERY call equal those of the same call executed once on a pristine
// engine in which the function was just defined (one pristine engine per distinct call);
// AST_Node::to_string() of every function body and parsed tree is byte-identical before the
// first and after the last evaluation.
#include "simworld.hpp"

using namespace verif;
using namespace chaiscript;

namespace {

  struct Gen {
    Rng &rng;
    int next_name = 0, next_site = 1;
    explicit Gen(Rng &r) : rng(r) {}
    std::string nm(const char *p) { return std::string(p) + std::to_string(next_name++); }
    // plain, signed and constant-folded integer literals (the optimizer stores the folded value in the tree)
    std::string lit_int() {
      const std::string n = std::to_string(rng.range(0, 99));
      switch (rng.below(8)) {
      case 0: return "-" + n;
      case 1: return "+" + n;
      case 2: return "~" + n;
      case 3: return "(" + n + " + " + std::to_string(rng.range(1, 9)) + ")";
      default: return n;
      }
    }
    std::string lit_str() {
      static const char *w[] = {"abc", "x", "", "hello world", "q1"};
      return std::string("\"") + w[rng.below(5)] + "\"";
    }
    // a block of statements that builds/mutates one local and reports through t()/ts(); returns the local's name
    std::string piece(std::string &out, std::string &ret_expr) {
      const int k = int(rng.below(21));
      switch (k) {
      case 0: {
        const std::string s = nm("s");
        out += "var " + s + " = " + lit_str() + "; " + s + " += \"+\"; " + s + " += to_string(a); ts(" + s + "); ";
        ret_expr = s;
        return s;
      }
      case 1: {
        const std::string v = nm("v");
        out += "var " + v + " = [" + lit_int() + ", " + lit_int() + ", " + lit_int() + "]; " + v + ".push_back(a); " + v + "[0] = " + v + "[1] + a; t(" + v + ".size()); t(" + v + "[0]); ";
        ret_expr = v;
        return v;
      }
      case 2: {
        const std::string m = nm("m");
        out += "var " + m + " = [\"a\": " + lit_int() + ", \"b\": " + lit_int() + "]; " + m + "[\"a\"] = " + m + "[\"b\"] + a; " + m + "[\"c\"] = a; t(" + m + ".size()); t(" + m + "[\"a\"]); ";
        ret_expr = m + "[\"a\"]";
        return m;
      }
      case 3: {
        const std::string r = nm("r");
        out += "var " + r + " = [1.." + std::to_string(rng.range(2, 5)) + "]; " + r + ".push_back(a); t(" + r + ".size()); ";
        ret_expr = r;
        return r;
      }
      case 4: {
        const std::string n = nm("n");
        out += "var " + n + " = " + lit_int() + "; " + n + " += a; ++" + n + "; " + n + " *= 2; t(" + n + "); ";
        ret_expr = n;
        return n;
      }
      case 5: {
        const std::string vv = nm("w");
        out += "var " + vv + " = [[" + lit_int() + ", " + lit_int() + "], [" + lit_int() + "]]; " + vv + "[0].push_back(a); " + vv + "[1][0] = a; t(" + vv + "[0].size()); t(" + vv + "[1][0]); ";
        ret_expr = vv + "[0]";
        return vv;
      }
      case 6: {
        const std::string s = nm("i");
        out += "var " + s + " = \"v=${a + " + lit_int() + "}!\"; ts(" + s + "); ";
        ret_expr = s;
        return s;
      }
      case 7: {
        const std::string d = nm("d");
        out += "var " + d + " = " + (rng.chance(300) ? "-" : "") + std::to_string(rng.range(0, 99)) + "." + std::to_string(rng.range(0, 9)) + "; " + d + " += a; t(to_int(" + d + ")); ";
        ret_expr = d;
        return d;
      }
      case 8: {
        // mutate through a reference to a literal-initialised local
        const std::string s = nm("p");
        const std::string q = nm("q");
        out += "var " + s + " = [" + lit_int() + "]; var &" + q + " = " + s + "; " + q + ".push_back(a); " + q + "[0] += 1; t(" + s + ".size()); t(" + s + "[0]); ";
        ret_expr = s;
        return s;
      }
      case 9: {
        // loop that appends literals
        const std::string s = nm("l");
        out += "var " + s + " = []; for (var i = 0; i < 3; ++i) { " + s + ".push_back(\"k\"); " + s + "[i] += to_string(i + a) }; ts(" + s + "[2]); ";
        ret_expr = s;
        return s;
      }
      case 10:
      case 11:
      case 12: {
        // literals and constant-folded expressions handed to functions that modify their parameter
        static const char *bools[] = {"!true", "!false", "true && true", "false || true", "1 < 2", "!(1 < 2)", "true"};
        static const char *nums[] = {"-5", "+3", "1 + 2", "2 * 3.5", "~1", "int(5)", "double(2)", "7", "-(2)"};
        static const char *strs[] = {"\"a\" + \"b\"", "\"lit\"", "to_string(1) + \"z\""};
        switch (rng.below(5)) {
        case 3: out += std::string("try { t(to_int(rebind(") + nums[rng.below(9)] + "))) } catch (e) { t(-6) }; "; break;
        case 4: out += std::string("try { ts(rebind_s(") + strs[rng.below(3)] + ")) } catch (e) { t(-5) }; "; break;
        case 0: out += std::string("try { tb(flip(") + bools[rng.below(7)] + ")) } catch (e) { t(-7) }; "; break;
        case 1: out += std::string("try { t(to_int(bump_num(") + nums[rng.below(9)] + "))) } catch (e) { t(-8) }; "; break;
        default: out += std::string("try { ts(app(") + strs[rng.below(3)] + ")) } catch (e) { t(-9) }; "; break;
        }
        ret_expr = lit_int();
        return "";
      }
      case 14: {
        // lambda literals: with and without captures, called in place, and handed to functions that assign to / rebind
        // their parameter (a function value is a value like any other: the literal must denote a fresh one every time)
        const std::string c = nm("cp");
        const std::string kk = std::to_string(rng.range(1, 50));
        switch (rng.below(4)) {
        case 0: out += "var " + c + " = " + lit_int() + "; t(fun[" + c + "](z) { " + c + " + z }(a)); "; break;
        case 1: out += "t(relam(fun() { " + kk + " })); t(fun() { " + kk + " }()); "; break;
        case 2: out += "t(relam(fun(z) { z + " + kk + " })); "; break;
        default: out += "var " + c + " = [" + lit_int() + "]; t(relam(fun[" + c + "]() { " + c + ".push_back(1); " + c + ".size() })); "; break;
        }
        ret_expr = lit_int();
        return "";
      }
      case 18: {
        // a map literal with literal keys one of whose VALUE expressions can fail: an evaluation abandoned half way
        // (possibly the very first one of this node) must leave nothing behind for the next
        const std::string m = nm("mm");
        const int site = next_site++;
        const bool first = rng.chance(500);
        out += "var " + m + " = [\"alpha\": " + (first ? "cbv(" + std::to_string(site) + ", 11)" : lit_int()) + ", \"beta\": " + (first ? lit_int() : "cbv(" + std::to_string(site) + ", 22)")
            + ", \"gamma\": " + lit_int() + "]; t(" + m + ".size()); t(" + m + "[\"alpha\"]); t(" + m + "[\"beta\"]); t(" + m + "[\"gamma\"]); ";
        ret_expr = m + "[\"beta\"]";
        return m;
      }
      case 20: {
        // a function bound to a temporary: the bound argument is the same stored value for every call
        switch (rng.below(3)) {
        case 0: out += "ts(prebound()); "; break;
        case 1: out += "ts(bind(grow, to_string(a))()); ts(prebound()); "; break;
        default: {
          const std::string b = nm("bf");
          out += "var " + b + " = bind(grow, \"k\" + to_string(a)); ts(" + b + "()); ts(" + b + "()); ";
          break;
        }
        }
        ret_expr = lit_int();
        return "";
      }
      case 19: {
        // arithmetic-assignment operators used as ordinary functions on a parameter that is bound to a literal
        static const char *nums[] = {"7", "-5", "1 + 2", "2.5"};
        switch (rng.below(3)) {
        case 0: out += std::string("try { t(to_int(addfn(") + nums[rng.below(4)] + "))) } catch (e) { t(-3) }; "; break;
        case 1: out += std::string("try { t(to_int(twice_op(`*=`, ") + nums[rng.below(4)] + ", 2))) } catch (e) { t(-2) }; "; break;
        default: out += std::string("try { t(to_int(twice_op(`-=`, ") + nums[rng.below(4)] + ", a))) } catch (e) { t(-1) }; "; break;
        }
        ret_expr = lit_int();
        return "";
      }
      case 15:
      case 16: {
        // a shared helper whose loop node serves strings, vectors and a user-defined sequence that was defined
        // only after the helper had already been evaluated (see warm-up / late definitions in execute)
        switch (rng.below(4)) {
        case 0: out += "ts(loopit(\"ab\" + to_string(a))); "; break;
        case 1: out += "ts(loopit(Countdown(a + 2))); "; break;
        case 2: out += "ts(loopit([" + lit_int() + ", a])); "; break;
        default: out += "ts(loopit(Countdown(2))); ts(loopit(\"z\")); t(late_helper(a)); "; break;
        }
        ret_expr = lit_int();
        return "";
      }
      default: {
        const std::string s = nm("c");
        out += "var " + s + " = 'x'; var " + s + "b = true; if (" + s + "b) { t(1) }; ";
        ret_expr = lit_int();
        return s;
      }
      }
    }
    std::string function_body() {
      std::string out, ret;
      if (rng.chance(300)) {
        // the frame is laid out differently for a == 1 and a == 2: every later local shifts by one slot
        out += "a == 1 && eval(\"var " + nm("ex") + " = 1\") > 0; ";
      }
      const int n = int(rng.range(1, 4));
      for (int i = 0; i < n; ++i) {
        piece(out, ret);
        if (rng.chance(150)) {
          out += "cb(" + std::to_string(next_site++) + "); ";
        }
      }
      switch (rng.below(4)) {
      case 0: out += "return " + ret + ";"; break;
      case 1: out += "return [" + lit_int() + ", " + lit_int() + "];"; break; // literal container returned directly
      case 2: out += "return " + lit_str() + ";"; break;                     // literal string returned directly
      default: out += ret + ";"; break;                                      // implicit return of the last value
      }
      return out;
    }
  };

  // how the caller uses the function: style 0 plain; 1 copy then mutate; 2 reference then mutate
  std::string call_script(int f, int arg, int style) {
    const std::string call = "f" + std::to_string(f) + "(" + std::to_string(arg) + ")";
    switch (style) {
    case 0: return call;
    case 1: return "fun() { var q = " + call + "; mutate(q); return q }()";
    default: return "fun() { var &q = " + call + "; mutate(q); return q }()";
    }
  }

  const char *PRELUDE = "def mutate(Vector v) { v.push_back(424242); if (v.size() > 0) { v[0] = 17 } }\n"
                        "def mutate(string s) { s += \"<mutated>\" }\n"
                        "def mutate(Map m) { m[\"zz\"] = 1 }\n"
                        "def mutate(x) { }\n"
                        "def to_int(d) { return int(d) }\n"
                        "def flip(b) { b = !b; return b }\n"
                        "def bump_num(x) { x += 1; return x }\n"
                        "def app(s) { s += \"x\"; return s }\n"
                        "def rebind(p) { p := p + 1; return p }\n"
                        "def rebind_s(s) { s := s + \"!\"; return s }\n"
                        "def tb(b) { if (b) { t(1) } else { t(0) } }\n"
                        "def relam(h) { var r = 0; try { r = h() } catch (e) { r = h(5) }; h = fun() { 99 }; return r }\n"
                        "def loopit(c) { var acc = \"\"; for (x : c) { acc += to_string(x); acc += \",\" }; return acc }\n"
                        "def late_helper(x) { return 1000 + x }\n"
                        "def addfn(n) { `+=`(n, 5); return n }\n"
                        "def twice_op(op, x, y) { op(x, y); return x }\n"
                        // (has_mark is only used by the known-finding replay C08-K1, never by generated bodies)
                        "def has_mark(x) { var r = 0; if (!x.get_var_attr(\"k\").is_var_undef()) { r = 1 }; x.get_var_attr(\"k\") = 1; return r }\n"
                        "def grow(s) { var q = s; q += \"z\"; return q }\n"
                        "global prebound = bind(grow, to_string(1))\n";

  // definitions the embedder adds AFTER some code has already been evaluated (the engine under test evaluates the
  // warm-up calls first; a pristine reference engine has everything defined before its single call)
  const char *LATE_DEFS = "class Countdown { var n; def Countdown(n) { this.n = n }; def empty() { this.n <= 0 }; def front() { this.n }; def pop_front() { this.n -= 1 } }\n"
                          "def range(Countdown c) { Countdown(c.n) }\n"
                          "def late_helper(int x) { return 2000 + x }\n";
  const char *WARM_UP[] = {"loopit(\"ab\")", "loopit(\"\")", "late_helper(1)", "loopit([1, 2])"};

  struct CallOut {
    std::string out;
    std::string trace;
  };

  struct Harness {
    std::unique_ptr<Engine> e;
    std::vector<std::string> traces; // per actor (index sim_self()+1)
    std::vector<int> fault_now;
    explicit Harness(int T) : traces(size_t(T) + 1), fault_now(size_t(T) + 1, 0) {
      e = make_engine();
      auto *tr = &traces;
      auto *fn = &fault_now;
      e->add(fun([tr](int v) { (*tr)[size_t(sim_self() + 1)] += std::to_string(v) + ","; }), "t");
      e->add(fun([tr](const std::string &s) { (*tr)[size_t(sim_self() + 1)] += "'" + s + "',"; }), "ts");
      e->add(fun([fn](int site) {
               sim_yield(7, nullptr);
               if ((*fn)[size_t(sim_self() + 1)] == site) {
                 throw std::runtime_error("injected");
               }
             }),
             "cb");
      e->add(fun([fn](int site, int v) {
               sim_yield(7, nullptr);
               if ((*fn)[size_t(sim_self() + 1)] == site) {
                 throw std::runtime_error("injected");
               }
               return v;
             }),
             "cbv");
      e->eval(PRELUDE);
    }
    void late_defs() { e->eval(LATE_DEFS); }
    // top-level variables of the calling thread that block-shaped trees refer to
    void declare_top_level() {
      try {
        e->eval("var tl_seed = 40; var tl_text = \"top\";");
      } catch (...) {
      }
    }
  };

  class C08 : public World {
  public:
    const char *id() const override { return "C08"; }

    J generate(uint64_t run_seed, const std::string &tier) override {
      Rng plan(mix(run_seed, 1)), faults(mix(run_seed, 2)), sched(mix(run_seed, 3));
      const bool thorough = tier == "thorough";
      Gen g(plan);
      J p = J::object();
      const int nf = int(plan.range(1, thorough ? 6 : 4));
      J &fns = p["fns"];
      fns = J::array();
      for (int i = 0; i < nf; ++i) {
        fns.push(J(g.function_body()));
      }
      const int nt = int(plan.range(0, 2));
      J &trees = p["trees"];
      trees = J::array();
      for (int i = 0; i < nt; ++i) {
        std::string body, ret;
        g.piece(body, ret);
        g.piece(body, ret);
        if (plan.chance(350)) {
          // a block evaluated directly in the caller's top-level scope, whose only declarations are
          // reference bindings: nothing it declares may survive it (it is evaluated again right there)
          trees.push(J("{ var &rr" + std::to_string(i) + " = tl_seed; auto &rs" + std::to_string(i) + " = tl_text; ts(rs" + std::to_string(i) + "); t(rr" + std::to_string(i) + "); rr"
                       + std::to_string(i) + " + " + g.lit_int() + " }"));
        } else {
          trees.push(J("fun(a) { " + body + "return " + ret + " }(" + std::to_string(plan.range(1, 2)) + ")"));
        }
      }
      const int T = int(plan.range(1, 3));
      p["actors"] = J(T);
      p["warm"] = J(int(plan.below(32)));
      J &ops = p["ops"];
      ops = J::array();
      // every chosen (function, arg, style) is called 3..6 times, by varying actors, shuffled
      std::vector<J> all;
      const int ncalls = int(plan.range(1, thorough ? 6 : 4));
      for (int c = 0; c < ncalls; ++c) {
        const bool tree = nt > 0 && plan.chance(250);
        const int f = int(plan.below(uint64_t(tree ? nt : nf)));
        const int arg = int(plan.range(1, 2));
        const int style = int(plan.below(3));
        const int reps = int(plan.range(3, 6));
        const int fault_rep = (!tree && g.next_site > 1 && faults.chance(300)) ? int(faults.below(uint64_t(reps - 1))) : -1;
        const int fault_site = fault_rep >= 0 ? int(faults.range(1, g.next_site - 1)) : 0;
        for (int k = 0; k < reps; ++k) {
          J op = J::object();
          op["a"] = J(int(plan.below(uint64_t(T))));
          if (tree) {
            op["k"] = J("tree");
            op["i"] = J(f);
          } else {
            op["k"] = J("call");
            op["f"] = J(f);
            op["arg"] = J(arg);
            op["style"] = J(style);
            if (k == fault_rep) {
              op["fault"] = J(fault_site);
            }
          }
          all.push_back(op);
        }
      }
      for (size_t i = all.size(); i > 1; --i) {
        std::swap(all[i - 1], all[size_t(plan.below(i))]);
      }
      for (auto &o : all) {
        ops.push(o);
      }
      p["sched"] = gen_sched(sched, T, uint64_t(all.size()) * 12);
      return p;
    }

    static std::string def_text(const J &fns, size_t i) { return "def f" + std::to_string(i) + "(a) { " + fns[i].str() + " }"; }

    RunResult execute(const J &plan) override {
      warm_up();
      RunResult r;
      const int T = int(plan.at("actors").num(1));
      const J &fns = plan.at("fns");
      const J &trees = plan.at("trees");
      const J &ops = plan.at("ops");

      // ---- references: one pristine engine per distinct call
      std::map<std::string, CallOut> ref;
      for (size_t oi = 0; oi < ops.size(); ++oi) {
        const J &op = ops[oi];
        const std::string key = op.at("k").str() + "/" + std::to_string(op.at("f").num()) + "/" + std::to_string(op.at("i").num()) + "/" + std::to_string(op.at("arg").num()) + "/"
            + std::to_string(op.at("style").num()) + "/" + std::to_string(op.at("fault").num());
        if (ref.count(key)) {
          continue;
        }
        Harness h(0);
        CallOut co;
        if (op.at("k").str() == "tree") {
          const size_t i = size_t(op.at("i").num()) % std::max<size_t>(1, trees.size());
          if (trees.size() == 0) {
            continue;
          }
          try {
            h.declare_top_level();
            h.late_defs();
            auto ast = h.e->parse(trees[i].str());
            co.out = "=" + show(h.e->eval(*ast), h.e.get());
          } catch (...) {
            co.out = "!" + describe_current_exception(h.e.get());
          }
        } else {
          const size_t f = size_t(op.at("f").num()) % fns.size();
          // the pristine engine has every function defined (bodies may not call each other) but none evaluated
          for (size_t i = 0; i < fns.size(); ++i) {
            h.e->eval(def_text(fns, i));
          }
          h.late_defs();
          h.fault_now[0] = int(op.at("fault").num());
          co.out = eval_show(*h.e, call_script(int(f), int(op.at("arg").num()), int(op.at("style").num())));
        }
        co.trace = h.traces[0];
        ref[key] = co;
        r.counters["pristine_reference_engines"] += 1;
      }

      // ---- the engine under test
      Harness h(T);
      Engine &e = *h.e;
      std::vector<std::string> dump_before;
      std::vector<std::shared_ptr<const dispatch::Dynamic_Proxy_Function>> dyn;
      for (size_t i = 0; i < fns.size(); ++i) {
        e.eval(def_text(fns, i));
        std::shared_ptr<const dispatch::Dynamic_Proxy_Function> d;
        try {
          d = std::dynamic_pointer_cast<const dispatch::Dynamic_Proxy_Function>(e.eval<Const_Proxy_Function>("f" + std::to_string(i)));
        } catch (...) {
        }
        dyn.push_back(d);
        dump_before.push_back(d ? d->get_parse_tree().to_string() : std::string());
      }
      // history before the late definitions: shared helpers (and, in some plans, generated functions) are evaluated
      // while the user-defined sequence type and the typed overload of late_helper do not exist yet
      const int warm = int(plan.at("warm").num(0));
      for (int w = 0; w < 4; ++w) {
        if (warm & (1 << w)) {
          try {
            e.eval(WARM_UP[w]);
            r.counters["probe_helper_evaluated_before_late_definitions"] += 1;
          } catch (...) {
          }
        }
      }
      if (warm & 16) {
        for (size_t i = 0; i < fns.size(); ++i) {
          try {
            e.eval("f" + std::to_string(i) + "(1)"); // may fail where the body needs a late definition
          } catch (...) {
          }
        }
        h.traces[0].clear();
      }
      h.late_defs();
      std::vector<AST_NodePtr> asts;
      std::vector<std::string> tree_before;
      for (size_t i = 0; i < trees.size(); ++i) {
        asts.push_back(e.parse(trees[i].str()));
        tree_before.push_back(asts.back()->to_string());
      }
      std::vector<std::vector<size_t>> mine(static_cast<size_t>(T));
      for (size_t i = 0; i < ops.size(); ++i) {
        const int a = int(ops[i].at("a").num());
        if (a >= 0 && a < T) {
          mine[size_t(a)].push_back(i);
        }
      }
      std::vector<CallOut> got(ops.size());
      auto body = [&](int a) {
        h.declare_top_level();
        for (size_t oi : mine[size_t(a)]) {
          const J &op = ops[oi];
          OpScope scope;
          std::string &tr = h.traces[size_t(a) + 1];
          const size_t mark = tr.size();
          std::string out;
          if (op.at("k").str() == "tree") {
            if (asts.empty()) {
              continue;
            }
            const size_t i = size_t(op.at("i").num()) % asts.size();
            try {
              out = "=" + show(e.eval(*asts[i]), &e);
            } catch (...) {
              out = "!" + describe_current_exception(&e);
            }
          } else {
            const size_t f = size_t(op.at("f").num()) % fns.size();
            h.fault_now[size_t(a) + 1] = int(op.at("fault").num());
            out = eval_show(e, call_script(int(f), int(op.at("arg").num()), int(op.at("style").num())));
            h.fault_now[size_t(a) + 1] = 0;
          }
          got[oi].out = out;
          got[oi].trace = tr.substr(mark);
          sim_log(5, uint64_t(oi), fnv1a(out + got[oi].trace));
        }
      };
      ActorRun ar = run_actors(plan.at("sched"), T, body, r);
      r.event_hash = ar.stats.event_hash;
      r.recorded_sched = ar.recorded;
      if (ar.result != SIM_OK) {
        h.e.release();
        r.nontrivial = true;
        return r;
      }
      std::map<std::string, int> times;
      for (size_t oi = 0; oi < ops.size(); ++oi) {
        const J &op = ops[oi];
        const int a = int(op.at("a").num());
        if (a < 0 || a >= T) {
          continue;
        }
        const std::string key = op.at("k").str() + "/" + std::to_string(op.at("f").num()) + "/" + std::to_string(op.at("i").num()) + "/" + std::to_string(op.at("arg").num()) + "/"
            + std::to_string(op.at("style").num()) + "/" + std::to_string(op.at("fault").num());
        if (!ref.count(key)) {
          continue;
        }
        const int nth = ++times[op.at("k").str() + std::to_string(op.at("f").num()) + "/" + std::to_string(op.at("i").num())];
        if (nth >= 3) {
          r.counters["probe_third_or_later_evaluation_of_a_body"] += 1;
        }
        if (op.at("fault").num() != 0) {
          r.counters["fault_throw_inside_body"] += 1;
        }
        r.counters[got[oi].out[0] == '=' ? "calls_returning_a_value" : "calls_raising"] += 1;
        if (got[oi].out != ref[key].out || got[oi].trace != ref[key].trace) {
          r.fail("re-evaluation-differs-from-pristine",
                 "op " + std::to_string(oi) + " " + op.dump() + " (evaluation number " + std::to_string(nth) + " of this body): got " + got[oi].out + " trace [" + got[oi].trace + "], pristine engine gives "
                     + ref[key].out + " trace [" + ref[key].trace + "]; body: " + (op.at("k").str() == "tree" ? trees[size_t(op.at("i").num()) % trees.size()].str() : fns[size_t(op.at("f").num()) % fns.size()].str()));
        }
      }
      for (size_t i = 0; i < fns.size(); ++i) {
        if (dyn[i] && dyn[i]->get_parse_tree().to_string() != dump_before[i]) {
          r.fail("syntax-tree-changed-by-evaluation", "function f" + std::to_string(i));
        }
        if (dyn[i]) {
          r.counters["ast_dumps_compared"] += 1;
        }
      }
      for (size_t i = 0; i < asts.size(); ++i) {
        if (asts[i]->to_string() != tree_before[i]) {
          r.fail("syntax-tree-changed-by-evaluation", "parsed tree " + std::to_string(i));
        }
        r.counters["ast_dumps_compared"] += 1;
      }
      r.counters["ops"] += int64_t(ops.size());
      r.counters["actors"] += T;
      r.nontrivial = ops.size() >= 3;
      r.distinct_key = fnv1a(fns.dump() + trees.dump() + ops.dump()) ^ ar.stats.interleaving_hash;
      return r;
    }
  };

  C08 g_c08;
  RegisterWorld reg_c08(&g_c08);
} // namespace
