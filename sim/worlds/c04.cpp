// World C04 — a name resolves to its innermost live binding; lookup caches are invisible.
//
// System under simulation: one engine holding generated functions whose bodies are evaluated
// again and again under DIFFERENT scope layouts (locals introduced conditionally by eval() /
// eval_file() inside the function, recursion to varying depth, shadowing blocks, loops, a
// capturing lambda called directly / through bind / as an object attribute).  1..3 actor threads
// call them in a generated order with generated flags: the lookup hint one actor writes into the
// shared AST is the hint the next actor trusts.  Faults: a callback that throws in the middle of
// the evaluation that primes the hints; preemption at every lock point.
// Oracles: (i) the identical history on a twin engine with hook H2 set (hints ignored) gives the
// identical per-actor traces and results; (ii) the generator's own scope model (innermost
// declaration live at that read, else global) predicts the tag printed by every read.
#include "simworld.hpp"

#include <set>
#include <sys/stat.h>

using namespace verif;
using namespace chaiscript;

namespace {

  constexpr int N_GLOB = 2;

  // ------------------------------------------------------------------ generator of function bodies
  struct Gen {
    Rng &rng;
    int next_name = 0, next_tag = 100, next_site = 1;
    int fn_index = 0;
    explicit Gen(Rng &r) : rng(r) {}
    std::string nm(const char *p) { return std::string(p) + std::to_string(next_name++); }

    // visible: names declared so far in enclosing scopes of this function (for reads / shadowing)
    J body(int d, std::vector<std::string> visible, int max_n) {
      J b = J::array();
      const int n = int(rng.range(1, max_n));
      for (int i = 0; i < n; ++i) {
        const int k = int(rng.below(d <= 0 ? 6 : 20));
        J s = J::object();
        switch (k) {
        case 0:
        case 1: {
          const std::string name = nm("a");
          s["k"] = J("decl");
          s["name"] = J(name);
          s["tag"] = J(next_tag++);
          visible.push_back(name);
          break;
        }
        case 2:
        case 3:
          if (visible.empty()) {
            continue;
          }
          s["k"] = J("read");
          s["name"] = J(rng.pick(visible));
          break;
        case 4: {
          // conditional introduction into the CURRENT scope, read back only under the same flag
          const std::string name = nm("e");
          const int flag = int(rng.below(3));
          s["k"] = J("intro");
          s["flag"] = J(flag);
          s["name"] = J(name);
          s["tag"] = J(next_tag++);
          s["via"] = J(int(rng.below(3) == 0 ? 1 : 0)); // 0 eval, 1 eval_file
          b.push(s);
          // some later statements, then the guarded read
          if (rng.chance(600)) {
            const std::string other = nm("a");
            J dcl = J::object();
            dcl["k"] = J("decl");
            dcl["name"] = J(other);
            dcl["tag"] = J(next_tag++);
            b.push(dcl);
            visible.push_back(other);
            J rd = J::object();
            rd["k"] = J("read");
            rd["name"] = J(other);
            b.push(rd);
          }
          J ir = J::object();
          ir["k"] = J("ifread");
          ir["flag"] = J(flag);
          ir["name"] = J(name);
          b.push(ir);
          continue;
        }
        case 5:
          s["k"] = J("gread");
          s["g"] = J(int(rng.below(N_GLOB)));
          break;
        case 6:
          s["k"] = J("block");
          s["body"] = body(d - 1, visible, 3);
          break;
        case 18:
        case 19: {
          // the HOST writes a name (a registered function calling chai.add(var(v), name) while the script runs): like any
          // write it must reach the innermost live binding of that name - directly, or inside a block that shadows it
          std::vector<std::string> own;
          for (auto &v : visible) {
            if (v[0] == 'a') {
              own.push_back(v); // plain declarations only (not loop counters, clause variables, eval-introduced names)
            }
          }
          if (own.empty()) {
            continue;
          }
          s["k"] = J("hostset");
          s["name"] = J(rng.pick(own));
          s["tag"] = J(next_tag++);
          s["tag2"] = J(next_tag++);
          s["shadowed"] = J(rng.chance(600));
          break;
        }
        case 7: {
          if (visible.empty()) {
            continue;
          }
          // shadow an outer name inside a block
          const std::string name = rng.pick(visible);
          s["k"] = J("shadow");
          s["name"] = J(name);
          s["tag"] = J(next_tag++);
          s["body"] = body(d - 1, visible, 2);
          break;
        }
        case 8: {
          const std::string iv = nm("i");
          s["k"] = J("loop");
          s["var"] = J(iv);
          s["n"] = J(int(rng.range(1, 3)));
          s["opt"] = J(rng.chance(500)); // true: `for (var i = 0; ...)` (optimised loop), false: init through a call
          auto vis2 = visible;
          s["body"] = body(d - 1, vis2, 3);
          break;
        }
        case 9:
          s["k"] = J("rec");
          break;
        case 10:
          if (fn_index == 0) {
            continue;
          }
          s["k"] = J("callother");
          s["f"] = J(int(rng.below(uint64_t(fn_index))));
          s["flags"] = J(int(rng.below(8)));
          break;
        case 11:
          s["k"] = J("cb");
          s["site"] = J(next_site++);
          break;
        case 14: {
          // a declaration in an if condition inside a block that declares nothing else; the name also denotes
          // an outer binding (a visible local or a global), which must be what a read AFTER the block reaches
          s["k"] = J("ifdecl");
          if (!visible.empty() && rng.chance(500)) {
            s["name"] = J(rng.pick(visible));
          } else {
            s["name"] = J("GLOB" + std::to_string(rng.below(N_GLOB)));
          }
          s["tag"] = J(next_tag++);
          break;
        }
        case 15: {
          // ranged for with two iterations and a body without a static declaration: the first iteration
          // introduces (through eval) a local that shadows a global; the second iteration must not see it
          s["k"] = J("rangedfor");
          s["g"] = J(int(rng.below(N_GLOB)));
          s["tag"] = J(next_tag++);
          s["var"] = J(nm("x"));
          break;
        }
        case 16:
        case 17: {
          // try / catch / finally whose clause variable has the name of an outer binding (a visible local or a
          // global): inside the clause the name is the caught value, in the finally block and afterwards the outer one
          s["k"] = J("tryfin");
          if (!visible.empty() && rng.chance(600)) {
            s["name"] = J(rng.pick(visible));
          } else {
            s["name"] = J("GLOB" + std::to_string(rng.below(N_GLOB)));
          }
          s["flag"] = J(int(rng.below(3)));
          s["tag"] = J(next_tag++);
          break;
        }
        case 13:
          s["k"] = J("hf"); // call of a helper whose position in the function table changes during the history
          s["i"] = J(int(rng.below(3)));
          break;
        default: {
          // introduction + read inside an if block of its own
          s["k"] = J("introblock");
          s["flag"] = J(int(rng.below(3)));
          s["name"] = J(nm("u"));
          s["tag"] = J(next_tag++);
          break;
        }
        }
        b.push(s);
      }
      return b;
    }
  };

  // ------------------------------------------------------------------ renderer
  std::string render_body(const J &b, int self);
  std::string render_stmt(const J &s, int self) {
    const std::string k = s.at("k").str();
    auto name = [&]() { return s.at("name").str(); };
    auto tag = [&]() { return std::to_string(s.at("tag").num()); };
    auto flag = [&]() { return "b" + std::to_string(s.at("flag").num() % 3); };
    if (k == "decl") return "var " + name() + " = " + tag() + ";";
    if (k == "read") return "t(" + name() + ");";
    if (k == "intro") {
      if (s.at("via").num() == 1) {
        return flag() + " && eval_file(\"c04_" + name() + ".chai\") > 0;";
      }
      return flag() + " && eval(\"var " + name() + " = " + tag() + "\") > 0;";
    }
    if (k == "ifread") return "if (" + flag() + ") { t(" + name() + ") }";
    // every generated block starts with a static declaration: the optimizer turns a block without
    // one into a scope-less block, and an eval()-introduced variable would then land in the
    // enclosing scope (optimizer behaviour is property C02's subject, not this world's)
    if (k == "introblock") return "if (" + flag() + ") { var pad_" + name() + " = 0; eval(\"var " + name() + " = " + tag() + "\"); t(" + name() + ") }";
    if (k == "gread") return "t(GLOB" + std::to_string(s.at("g").num() % N_GLOB) + ");";
    if (k == "block") return "{ var pad_b" + std::to_string(fnv1a(s.dump()) % 100000) + " = 0; " + render_body(s.at("body"), self) + "}";
    if (k == "shadow") return "{ var " + name() + " = " + tag() + "; t(" + name() + "); " + render_body(s.at("body"), self) + "t(" + name() + "); }";
    if (k == "hostset") {
      const std::string t2 = std::to_string(s.at("tag2").num());
      if (s.at("shadowed").truthy()) {
        return "{ var " + name() + " = " + tag() + "; host_set(\"" + name() + "\", " + t2 + "); t(" + name() + "); } t(" + name() + ");";
      }
      return "host_set(\"" + name() + "\", " + t2 + "); t(" + name() + ");";
    }
    if (k == "loop") {
      const std::string v = s.at("var").str();
      const std::string init = s.at("opt").truthy() ? "0" : "zero()";
      return "for (var " + v + " = " + init + "; " + v + " < " + std::to_string(s.at("n").num()) + "; ++" + v + ") { var pad_" + v + " = 0; t(1000 + " + v + "); " + render_body(s.at("body"), self) + "}";
    }
    if (k == "rec") return "if (n > 0) { g" + std::to_string(self) + "(b0, b1, b2, n - 1) }";
    if (k == "callother") {
      const int f = int(s.at("flags").num());
      return "g" + std::to_string(s.at("f").num()) + "(" + ((f & 1) ? "true" : "false") + ", " + ((f & 2) ? "true" : "false") + ", " + ((f & 4) ? "true" : "false") + ", 0);";
    }
    if (k == "cb") return "cb(" + std::to_string(s.at("site").num()) + ");";
    if (k == "hf") return "t(hf" + std::to_string(s.at("i").num() % 3) + "(0));";
    if (k == "ifdecl") return "{ if (var " + name() + " = true) { t(" + tag() + ") } } t(" + name() + ");";
    if (k == "tryfin") {
      return "try { if (" + flag() + ") { throw(" + tag() + ") } } catch (" + name() + ") { t(" + name() + ") } finally { t(" + name() + ") } t(" + name() + ");";
    }
    if (k == "rangedfor") {
      const std::string gname = "GLOB" + std::to_string(s.at("g").num() % N_GLOB);
      const std::string v = s.at("var").str();
      // two different read nodes: one only ever evaluated while the local exists, one only while it does
      // not (a single node evaluated in both states is known finding C04-K2)
      return "for (" + v + " : [1, 2]) { " + v + " == 1 && eval(\"var " + gname + " = " + tag() + "\") > 0; if (" + v + " == 1) { t(" + gname + ") } else { t(" + gname + ") } }";
    }
    // ---- shapes that are never generated; they exist for the known-finding replay files
    if (k == "intro_unguarded_read") {
      // K2: the read is evaluated both when the name is not local and when it is
      return flag() + " && eval(\"var " + name() + " = " + tag() + "\") > 0; t(" + name() + ");";
    }
    if (k == "intro_shadowing") {
      // K1: eval() introduces, in an inner scope, a name that an outer scope also binds
      return "{ var pad_s" + tag() + " = 0; " + flag() + " && eval(\"var " + name() + " = " + tag() + "\") > 0; t(" + name() + "); }";
    }
    return "";
  }
  std::string render_body(const J &b, int self) {
    std::string out;
    for (size_t i = 0; i < b.size(); ++i) {
      out += render_stmt(b[i], self) + " ";
    }
    return out;
  }

  // ------------------------------------------------------------------ scope model (oracle ii)
  struct Abort {};
  struct ModelExec {
    const J &fns;
    const std::vector<int64_t> &globs;
    int fault_site; // cb site that throws (0 = none)
    std::vector<int64_t> trace;
    size_t budget = 0; // >0: abort when the modelled work exceeds it (used by the generator to bound calls)
    size_t calls = 0;
    using Scope = std::vector<std::pair<std::string, int64_t>>;

    int64_t lookup(const std::vector<Scope> &frame, const std::string &name) {
      for (auto sc = frame.rbegin(); sc != frame.rend(); ++sc) {
        for (auto &kv : *sc) {
          if (kv.first == name) {
            return kv.second;
          }
        }
      }
      if (name.rfind("GLOB", 0) == 0) {
        return globs[size_t(atoi(name.c_str() + 4)) % globs.size()];
      }
      return -999999; // never generated: would be "can not find object"
    }
    void exec_body(const J &b, int self, std::vector<Scope> &frame, const bool flags[3], int n) {
      for (size_t i = 0; i < b.size(); ++i) {
        exec_stmt(b[i], self, frame, flags, n);
      }
    }
    void exec_stmt(const J &s, int self, std::vector<Scope> &frame, const bool flags[3], int n) {
      const std::string k = s.at("k").str();
      if (k == "decl") {
        frame.back().emplace_back(s.at("name").str(), s.at("tag").num());
      } else if (k == "read") {
        trace.push_back(lookup(frame, s.at("name").str()));
      } else if (k == "intro" || k == "intro_unguarded_read" || k == "intro_shadowing") {
        if (k == "intro_shadowing") {
          frame.emplace_back();
        }
        if (flags[s.at("flag").num() % 3]) {
          frame.back().emplace_back(s.at("name").str(), s.at("tag").num());
        }
        if (k != "intro") {
          trace.push_back(lookup(frame, s.at("name").str()));
        }
        if (k == "intro_shadowing") {
          frame.pop_back();
        }
      } else if (k == "ifread") {
        if (flags[s.at("flag").num() % 3]) {
          trace.push_back(lookup(frame, s.at("name").str()));
        }
      } else if (k == "introblock") {
        if (flags[s.at("flag").num() % 3]) {
          trace.push_back(s.at("tag").num());
        }
      } else if (k == "gread") {
        trace.push_back(globs[size_t(s.at("g").num()) % globs.size()]);
      } else if (k == "block") {
        frame.emplace_back();
        exec_body(s.at("body"), self, frame, flags, n);
        frame.pop_back();
      } else if (k == "hostset") {
        const std::string nm = s.at("name").str();
        auto write_innermost = [&](int64_t v) {
          for (auto sc = frame.rbegin(); sc != frame.rend(); ++sc) {
            for (auto &kv : *sc) {
              if (kv.first == nm) {
                kv.second = v;
                return;
              }
            }
          }
          frame.back().emplace_back(nm, v);
        };
        if (s.at("shadowed").truthy()) {
          frame.emplace_back();
          frame.back().emplace_back(nm, s.at("tag").num());
          write_innermost(s.at("tag2").num());
          trace.push_back(lookup(frame, nm));
          frame.pop_back();
          trace.push_back(lookup(frame, nm));
        } else {
          write_innermost(s.at("tag2").num());
          trace.push_back(lookup(frame, nm));
        }
      } else if (k == "shadow") {
        frame.emplace_back();
        frame.back().emplace_back(s.at("name").str(), s.at("tag").num());
        trace.push_back(s.at("tag").num());
        exec_body(s.at("body"), self, frame, flags, n);
        trace.push_back(lookup(frame, s.at("name").str()));
        frame.pop_back();
      } else if (k == "loop") {
        for (int64_t i = 0; i < s.at("n").num(); ++i) {
          frame.emplace_back();
          frame.back().emplace_back(s.at("var").str(), i);
          trace.push_back(1000 + i);
          // the loop body is a scope of its own inside the loop-variable scope
          frame.emplace_back();
          exec_body(s.at("body"), self, frame, flags, n);
          frame.pop_back();
          frame.pop_back();
        }
      } else if (k == "rec") {
        if (n > 0) {
          call(self, flags, n - 1);
        }
      } else if (k == "callother") {
        const int f = int(s.at("flags").num());
        const bool fl[3] = {(f & 1) != 0, (f & 2) != 0, (f & 4) != 0};
        call(int(s.at("f").num()), fl, 0);
      } else if (k == "hf") {
        trace.push_back(2000 + s.at("i").num() % 3);
      } else if (k == "ifdecl") {
        trace.push_back(s.at("tag").num());                 // inside the if: the bool declared in the condition is not read
        trace.push_back(lookup(frame, s.at("name").str())); // after the block: the outer binding again
      } else if (k == "tryfin") {
        if (flags[s.at("flag").num() % 3]) {
          trace.push_back(s.at("tag").num()); // inside the clause: the caught value
        }
        trace.push_back(lookup(frame, s.at("name").str())); // finally block: the clause variable is gone
        trace.push_back(lookup(frame, s.at("name").str())); // after the statement
      } else if (k == "rangedfor") {
        trace.push_back(s.at("tag").num());                                 // first iteration: the local introduced by eval
        trace.push_back(globs[size_t(s.at("g").num()) % globs.size()]);     // second iteration: a fresh scope, the global
      } else if (k == "cb") {
        if (int(s.at("site").num()) == fault_site) {
          throw Abort();
        }
      }
    }
    void call(int f, const bool flags[3], int n) {
      ++calls;
      if (budget != 0 && trace.size() + calls * 4 > budget) {
        throw Abort();
      }
      std::vector<Scope> frame(1);
      exec_body(fns[size_t(f)].at("body"), f, frame, flags, n);
    }
  };

  void collect_intro_files(const J &b, std::map<std::string, int64_t> &out) {
    for (size_t i = 0; i < b.size(); ++i) {
      const J &s = b[i];
      if (s.at("k").str() == "intro" && s.at("via").num() == 1) {
        out[s.at("name").str()] = s.at("tag").num();
      }
      if (s.has("body")) {
        collect_intro_files(s.at("body"), out);
      }
    }
  }

  struct SideResult {
    std::vector<std::vector<int64_t>> traces; // per actor
    std::vector<std::string> outs;            // per op
    int sim_result = SIM_OK;
    SimStats stats{};
    J recorded;
  };

  class C04 : public World {
  public:
    const char *id() const override { return "C04"; }

    J generate(uint64_t run_seed, const std::string &tier) override {
      Rng plan(mix(run_seed, 1)), faults(mix(run_seed, 2)), sched(mix(run_seed, 3));
      const bool thorough = tier == "thorough";
      Gen g(plan);
      J p = J::object();
      J &fns = p["fns"];
      fns = J::array();
      const int nf = int(plan.range(1, thorough ? 5 : 4));
      for (int i = 0; i < nf; ++i) {
        g.fn_index = i;
        J f = J::object();
        f["body"] = g.body(int(plan.range(1, 3)), {}, 5);
        fns.push(f);
      }
      const int T = int(plan.range(1, 3));
      p["actors"] = J(T);
      J &ops = p["ops"];
      ops = J::array();
      const int n = int(plan.range(3, thorough ? 30 : 25));
      const bool with_faults = faults.chance(500);
      for (int i = 0; i < n; ++i) {
        J op = J::object();
        op["a"] = J(int(plan.below(uint64_t(T))));
        if (T == 1 && plan.chance(100)) {
          // (single-actor plans only: the table is briefly without the helpers) restore the snapshot taken
          // before the helper functions were defined and define them again in another order, so that
          // every cached function-table position of the long-lived bodies is stale
          op["k"] = J("reorder");
          op["perm"] = J(int(plan.below(6)));
        } else if (plan.chance(120)) {
          // a name that is a function from the start and becomes a global later: the same reader body is
          // evaluated before and after.  Always actor 0, so that the reads are ordered with the creation.
          op["a"] = J(0);
          op["k"] = J(plan.chance(350) ? "mkglobal" : "rdnv");
          op["j"] = J(int(plan.below(2)));
        } else if (plan.chance(200)) {
          op["k"] = J("lam");
          op["j"] = J(int(plan.below(2)));
          op["style"] = J(int(plan.below(3)));
        } else {
          op["k"] = J("call");
          op["f"] = J(int(plan.below(uint64_t(nf))));
          op["flags"] = J(int(plan.below(8)));
          op["n"] = J(int(plan.chance(400) ? plan.range(1, 4) : 0));
          if (with_faults && g.next_site > 1 && faults.chance(250)) {
            op["fault"] = J(int(faults.range(1, g.next_site - 1)));
          }
        }
        ops.push(std::move(op));
      }
      // bound the work of every call: recursion inside loops / calls of other functions multiplies;
      // the scope model counts the reads a call performs, calls above the bound lose their
      // recursion depth or are dropped (the step cap is a liveness oracle, not a workload limit)
      {
        std::vector<int64_t> globs(N_GLOB, 0);
        J kept = J::array();
        for (size_t i = 0; i < ops.size(); ++i) {
          J op = ops[i];
          if (op.at("k").str() == "call") {
            auto cost = [&](const J &o) -> size_t {
              const int f = int(o.at("flags").num());
              const bool fl[3] = {(f & 1) != 0, (f & 2) != 0, (f & 4) != 0};
              ModelExec m{fns, globs, 0};
              m.budget = 400;
              try {
                m.call(int(o.at("f").num()), fl, int(o.at("n").num()));
              } catch (const Abort &) {
                return size_t(1000000);
              }
              return m.trace.size() + m.calls * 4;
            };
            if (cost(op) > 400) {
              op["n"] = J(0);
              if (cost(op) > 400) {
                continue;
              }
            }
          }
          kept.push(op);
        }
        ops = kept;
      }
      p["hint_points"] = J(T >= 2 && plan.chance(500));
      p["sched"] = gen_sched(sched, T, uint64_t(n) * (p.at("hint_points").truthy() ? 60 : 10));
      if (p.at("hint_points").truthy() && p.at("sched").has("mask")) {
        // switch at every site, or only where hints are touched (and between operations)
        p["sched"]["mask"] = J(plan.chance(500) ? 0u : ((1u << 10) | (1u << 5) | (1u << 6)));
      }
      return p;
    }

    SideResult run_side(const J &plan, bool ignore_hints, RunResult &r) {
      SideResult out;
      const int T = int(plan.at("actors").num(1));
      const J &fns = plan.at("fns");
      const J &ops = plan.at("ops");
      chaiscript::detail::verif_ignore_lookup_hints().store(ignore_hints);
      // H4: in some multi-actor plans every read / judgement / store of a lookup hint is a scheduling point
      ::chaiscript_verif::hint_points_enabled().store(plan.has("hint_points") && plan.at("hint_points").truthy());
      const std::string dir = run_dir() + "/c04/";
      ::mkdir(dir.c_str(), 0777);
      std::map<std::string, int64_t> files;
      for (size_t i = 0; i < fns.size(); ++i) {
        collect_intro_files(fns[i].at("body"), files);
      }
      for (auto &kv : files) {
        write_file(dir + "c04_" + kv.first + ".chai", "var " + kv.first + " = " + std::to_string(kv.second) + "\n");
      }
      auto chai = make_engine({dir});
      Engine &e = *chai;
      out.traces.assign(size_t(T) + 1, {});
      out.outs.assign(ops.size(), "");
      std::vector<int> fault_now(size_t(T) + 1, 0);
      e.add(fun([&out](int v) { out.traces[size_t(sim_self() + 1)].push_back(v); }), "t");
      e.add(fun([]() { return 0; }), "zero");
      e.add(fun([&e](const std::string &n, int v) { e.add(var(v), n); }), "host_set");
      e.add(fun([&fault_now](int site) {
              sim_yield(7, nullptr);
              if (fault_now[size_t(sim_self() + 1)] == site) {
                throw std::runtime_error("injected");
              }
            }),
            "cb");
      for (int gidx = 0; gidx < N_GLOB; ++gidx) {
        e.eval("global GLOB" + std::to_string(gidx) + " = " + std::to_string(50 + gidx));
      }
      for (size_t i = 0; i < fns.size(); ++i) {
        e.eval("def g" + std::to_string(i) + "(b0, b1, b2, n) { " + render_body(fns[i].at("body"), int(i)) + "}");
      }
      std::vector<AST_NodePtr> tl_trees;
      for (int j = 0; j < 2; ++j) {
        e.eval("global TL" + std::to_string(j) + " = " + std::to_string(60 + j));
        tl_trees.push_back(e.parse("t(TL" + std::to_string(j) + ")"));
      }
      e.eval("def shownv(x) { if (is_type(x, \"Function\")) { t(-1) } else { t(x) } }");
      for (int j = 0; j < 2; ++j) {
        e.eval("def NV" + std::to_string(j) + "() { return -1 }; def rdnv" + std::to_string(j) + "() { shownv(NV" + std::to_string(j) + ") }");
      }
      // capturing lambdas, stored in globals so that every actor shares the same AST
      for (int j = 0; j < 2; ++j) {
        e.eval("global LAM" + std::to_string(j) + " = fun() { var c = " + std::to_string(70 + j) + "; return fun[c](x) { t(c); t(x); c + x } }()");
      }
      const Engine::State before_helpers = e.get_state();
      auto define_helpers = [&](int perm) {
        static const int orders[6][3] = {{0, 1, 2}, {0, 2, 1}, {1, 0, 2}, {1, 2, 0}, {2, 0, 1}, {2, 1, 0}};
        for (int q = 0; q < 3; ++q) {
          const int i = orders[perm % 6][q];
          // an unrelated function in between shifts the positions further
          e.eval("def hf_pad" + std::to_string(perm % 6) + "_" + std::to_string(q) + "(x) { x }");
          e.eval("def hf" + std::to_string(i) + "(x) { " + std::to_string(2000 + i) + " }");
        }
      };
      define_helpers(0);
      std::vector<std::vector<size_t>> mine(static_cast<size_t>(T));
      for (size_t i = 0; i < ops.size(); ++i) {
        const int a = int(ops[i].at("a").num());
        if (a >= 0 && a < T) {
          mine[size_t(a)].push_back(i);
        }
      }
      auto body = [&](int a) {
        for (size_t oi : mine[size_t(a)]) {
          const J &op = ops[oi];
          OpScope scope;
          std::string o;
          if (op.at("k").str() == "reorder") {
            if (T == 1) {
              e.set_state(before_helpers);
              define_helpers(int(op.at("perm").num()) + 1);
            }
            out.outs[oi] = "=i:0";
            continue;
          }
          if (op.at("k").str() == "decl_top") {
            // (never generated: known finding C04-K3) a top-level local that shadows a global
            o = eval_show(e, "var TL" + std::to_string(op.at("j").num() % 2) + " = " + std::to_string(op.at("tag").num()) + "; 0");
          } else if (op.at("k").str() == "tree_eval") {
            try {
              e.eval(*tl_trees[size_t(op.at("j").num() % 2)]);
              o = "=i:0";
            } catch (...) {
              o = "!" + describe_current_exception(&e);
            }
          } else if (op.at("k").str() == "mkglobal") {
            o = eval_show(e, "global NV" + std::to_string(op.at("j").num() % 2) + " = " + std::to_string(900 + op.at("j").num() % 2) + "; 0");
          } else if (op.at("k").str() == "rdnv") {
            o = eval_show(e, "rdnv" + std::to_string(op.at("j").num() % 2) + "(); 0");
          } else if (op.at("k").str() == "lam") {
            const std::string l = "LAM" + std::to_string(op.at("j").num() % 2);
            switch (op.at("style").num() % 3) {
            case 0: o = eval_show(e, l + "(1)"); break;
            case 1: o = eval_show(e, "bind(" + l + ", 2)()"); break;
            default: o = eval_show(e, "fun() { var o = Dynamic_Object(); o.f = " + l + "; return o.f(3) }()"); break;
            }
          } else {
            const int f = int(op.at("flags").num());
            fault_now[size_t(a) + 1] = int(op.at("fault").num(0));
            o = eval_show(e, "g" + std::to_string(op.at("f").num() % int64_t(fns.size())) + "(" + ((f & 1) ? "true" : "false") + ", " + ((f & 2) ? "true" : "false") + ", "
                                 + ((f & 4) ? "true" : "false") + ", " + std::to_string(op.at("n").num()) + "); 0");
            fault_now[size_t(a) + 1] = 0;
          }
          out.outs[oi] = o;
          sim_log(4, uint64_t(oi), fnv1a(o));
        }
      };
      ActorRun ar = run_actors(plan.at("sched"), T, body, r);
      out.sim_result = ar.result;
      out.stats = ar.stats;
      out.recorded = ar.recorded;
      if (ar.result != SIM_OK) {
        chai.release();
      }
      chaiscript::detail::verif_ignore_lookup_hints().store(false);
      ::chaiscript_verif::hint_points_enabled().store(false);
      return out;
    }

    RunResult execute(const J &plan) override {
      warm_up();
      RunResult r;
      const int T = int(plan.at("actors").num(1));
      const J &fns = plan.at("fns");
      const J &ops = plan.at("ops");
      SideResult with_hints = run_side(plan, false, r);
      r.event_hash = with_hints.stats.event_hash;
      r.recorded_sched = with_hints.recorded;
      if (with_hints.sim_result != SIM_OK) {
        r.nontrivial = true;
        return r;
      }
      SideResult no_hints = run_side(plan, true, r);
      if (no_hints.sim_result != SIM_OK) {
        r.nontrivial = true;
        return r;
      }
      // oracle (ii): the scope model
      std::vector<int64_t> globs;
      for (int gidx = 0; gidx < N_GLOB; ++gidx) {
        globs.push_back(50 + gidx);
      }
      std::vector<std::vector<int64_t>> want(size_t(T) + 1);
      std::vector<std::string> want_out(ops.size());
      bool nv_global[2] = {false, false};
      std::vector<std::map<int64_t, int64_t>> tl_local(static_cast<size_t>(T)); // per actor: top-level locals shadowing TLj
      for (size_t oi = 0; oi < ops.size(); ++oi) {
        const J &op = ops[oi];
        const int a = int(op.at("a").num());
        if (a < 0 || a >= T) {
          continue;
        }
        auto &tr = want[size_t(a) + 1];
        if (op.at("k").str() == "reorder") {
          want_out[oi] = "=i:0";
          nv_global[0] = nv_global[1] = false; // globals created after the snapshot are gone as well
          r.counters["probe_function_table_reordered"] += 1;
        } else if (op.at("k").str() == "decl_top") {
          tl_local[size_t(a)][op.at("j").num() % 2] = op.at("tag").num();
          want_out[oi] = "=i:0";
        } else if (op.at("k").str() == "tree_eval") {
          const int64_t j = op.at("j").num() % 2;
          tr.push_back(tl_local[size_t(a)].count(j) ? tl_local[size_t(a)][j] : 60 + j);
          want_out[oi] = "=i:0";
        } else if (op.at("k").str() == "mkglobal") {
          nv_global[op.at("j").num() % 2] = true;
          want_out[oi] = "=i:0";
        } else if (op.at("k").str() == "rdnv") {
          tr.push_back(nv_global[op.at("j").num() % 2] ? 900 + op.at("j").num() % 2 : -1);
          want_out[oi] = "=i:0";
          if (nv_global[op.at("j").num() % 2]) {
            r.counters["probe_name_read_after_it_became_a_global"] += 1;
          }
        } else if (op.at("k").str() == "lam") {
          const int64_t c = 70 + op.at("j").num() % 2;
          const int64_t x = op.at("style").num() % 3 + 1;
          tr.push_back(c);
          tr.push_back(x);
          want_out[oi] = "=i:" + std::to_string(c + x);
        } else {
          const int f = int(op.at("flags").num());
          const bool fl[3] = {(f & 1) != 0, (f & 2) != 0, (f & 4) != 0};
          ModelExec m{fns, globs, int(op.at("fault").num(0))};
          try {
            m.call(int(op.at("f").num() % int64_t(fns.size())), fl, int(op.at("n").num()));
            want_out[oi] = "=i:0";
          } catch (const Abort &) {
            want_out[oi] = "!St13runtime_error|injected";
            r.counters["fault_throw_in_priming_or_later_evaluation"] += 1;
          }
          tr.insert(tr.end(), m.trace.begin(), m.trace.end());
        }
      }
      auto fmt = [](const std::vector<int64_t> &v) {
        std::string s;
        for (auto x : v) {
          s += std::to_string(x) + " ";
        }
        return s;
      };
      for (size_t oi = 0; oi < ops.size(); ++oi) {
        if (with_hints.outs[oi] != no_hints.outs[oi]) {
          r.fail("hints-change-behaviour", "op " + std::to_string(oi) + " " + ops[oi].dump() + ": with hints " + with_hints.outs[oi] + ", hints ignored " + no_hints.outs[oi]);
        }
        if (with_hints.outs[oi] != want_out[oi] && !want_out[oi].empty()) {
          r.fail("lookup-differs-from-scope-model", "op " + std::to_string(oi) + " " + ops[oi].dump() + ": engine " + with_hints.outs[oi] + ", model " + want_out[oi]);
        }
      }
      for (int a = 0; a <= T; ++a) {
        if (with_hints.traces[size_t(a)] != no_hints.traces[size_t(a)]) {
          r.fail("hints-change-behaviour", "actor " + std::to_string(a - 1) + " reads: with hints [" + fmt(with_hints.traces[size_t(a)]) + "], hints ignored [" + fmt(no_hints.traces[size_t(a)]) + "]");
        }
        if (with_hints.traces[size_t(a)] != want[size_t(a)]) {
          r.fail("lookup-differs-from-scope-model", "actor " + std::to_string(a - 1) + " reads: engine [" + fmt(with_hints.traces[size_t(a)]) + "], scope model [" + fmt(want[size_t(a)]) + "]");
        }
      }
      // reach probe: a function evaluated under at least two different flag/depth combinations
      std::map<int64_t, std::set<int64_t>> layouts;
      for (size_t oi = 0; oi < ops.size(); ++oi) {
        if (ops[oi].at("k").str() == "call") {
          layouts[ops[oi].at("f").num()].insert(ops[oi].at("flags").num() * 16 + ops[oi].at("n").num());
        }
      }
      for (auto &kv : layouts) {
        if (kv.second.size() > 1) {
          r.counters["probe_body_evaluated_under_different_layouts"] += 1;
        }
      }
      r.counters["ops"] += int64_t(ops.size());
      r.counters["actors"] += T;
      r.evals = 2;
      r.nontrivial = !layouts.empty();
      uint64_t shape = fnv1a(fns.dump());
      shape = fnv1a(ops.dump(), shape);
      r.distinct_key = shape ^ with_hints.stats.interleaving_hash;
      return r;
    }
  };

  C04 g_c04;
  RegisterWorld reg_c04(&g_c04);
} // namespace
