// World C14 — engine instances are isolated from one another.
//
// System under simulation: an arena of 3 engine-sized slots (placement new, so the simulator decides
// when an address is reused) plus 2 heap slots; 1..4 long-lived actor threads create, use and
// destroy engines.  Operations on the same slot are ordered as in the plan (the user must
// synchronise creation/destruction with use); operations on different slots interleave freely
// under the seeded scheduler.  Every value written encodes the engine *generation*, so a read
// identifies which engine it came from.
// Oracle: dictionary model per generation {per-actor locals, functions, globals, conversions,
// used files}: every read yields this generation's value or "not found", never another
// generation's; get_locals() equals the model; use() evaluates once per generation.
#include "simworld.hpp"

#include <atomic>
#include <set>
#include <sys/stat.h>

using namespace verif;
using namespace chaiscript;

namespace {

  struct CA {
    int v;
  };
  struct CB {
    int v;
  };
  // a second, unrelated conversion pair: which pair an engine registers depends on its generation,
  // so coexisting engines hold the same NUMBER of conversions over DIFFERENT types
  struct CC {
    int v;
  };
  struct CD {
    int v;
  };

  constexpr int N_ARENA = 3;
  constexpr int N_SLOTS = 5;

  struct alignas(64) ArenaSlot {
    unsigned char bytes[8192];
  };
  ArenaSlot g_arena[N_ARENA];

  const char *lnames[] = {"x", "y", "secret"};

  struct GenModel {
    int gen = 0;
    std::map<int, std::map<std::string, int64_t>> locals; // actor -> name -> value
    std::map<int, int64_t> fns, globs;
    bool conv = false;
    bool used = false;
    bool lib_extended = false; // the engine was built from a standard library the embedder had extended
    bool thing = false;        // a type named "Thing" is registered (which C++ type depends on the generation)
    bool mod = false;          // the embedder's long-lived extension Module has been added to this engine
    std::shared_ptr<std::atomic<int>> bumps;
  };

  class C14 : public World {
  public:
    const char *id() const override { return "C14"; }

    J generate(uint64_t run_seed, const std::string &tier) override {
      Rng plan(mix(run_seed, 1)), sched(mix(run_seed, 3));
      const bool thorough = tier == "thorough";
      J p = J::object();
      const int T = int(plan.range(1, 4));
      p["actors"] = J(T);
      const int n_ops = int(plan.range(6, thorough ? 60 : 40));
      const int slots_used = int(plan.range(1, N_SLOTS));
      // swarm: bias towards the arena (address reuse decided by the simulator) or the heap
      const bool arena_only = plan.chance(400);
      J &ops = p["ops"];
      ops = J::array();
      bool occupied[N_SLOTS] = {false, false, false, false, false};
      for (int n = 0; n < n_ops; ++n) {
        J op = J::object();
        op["a"] = J(int(plan.below(uint64_t(T))));
        int s = int(plan.below(uint64_t(slots_used)));
        if (arena_only && s >= N_ARENA) {
          s %= N_ARENA;
        }
        op["s"] = J(s);
        if (!occupied[s]) {
          op["k"] = J("create");
          op["extlib"] = J(plan.chance(400));
          occupied[s] = true;
        } else {
          const int kind = int(plan.below(28));
          switch (kind) {
          case 0:
          case 1:
            op["k"] = J("destroy");
            occupied[s] = false;
            break;
          case 2:
          case 3:
          case 4:
            op["k"] = J("local");
            op["name"] = J(lnames[plan.below(3)]);
            op["v"] = J(int(plan.range(1, 99)));
            break;
          case 5:
          case 6:
          case 7:
            op["k"] = J("lread");
            op["name"] = J(lnames[plan.below(3)]);
            break;
          case 8:
            op["k"] = J("locals");
            break;
          case 9:
            op["k"] = J("def");
            op["i"] = J(int(plan.below(2)));
            op["v"] = J(int(plan.range(1, 99)));
            break;
          case 10:
            op["k"] = J("call");
            op["i"] = J(int(plan.below(2)));
            break;
          case 11:
            op["k"] = J("glob");
            op["i"] = J(int(plan.below(2)));
            op["v"] = J(int(plan.range(1, 99)));
            break;
          case 12:
            op["k"] = J("gread");
            op["i"] = J(int(plan.below(2)));
            break;
          case 13:
          case 16:
          case 17:
            op["k"] = J(plan.chance(400) ? "conv" : "needconv");
            break;
          case 14:
            op["k"] = J(plan.chance(600) ? "use" : "calluse");
            // 0: plain; 1..3: that many further engines are created, used and destroyed on the same thread inside
            // this engine's use() (nested_order: which of them dies first)
            op["nested"] = J(int(plan.chance(500) ? plan.range(1, 3) : 0));
            op["nested_order"] = J(int(plan.below(2)));
            break;
          case 18:
            op["k"] = J("calllib"); // a function / global the embedder put into THIS engine's library only
            break;
          case 19:
          case 20:
            op["k"] = J(plan.chance(400) ? "addthing" : "readthing"); // the type name "Thing": another C++ type per generation
            break;
          case 24:
          case 25:
            // one extension Module owned by the embedder for the whole run, added to engines as they come and go
            op["k"] = J(plan.chance(450) ? "addmod" : "callmod");
            break;
          case 26:
          case 27:
            // one syntax tree, parsed once by the embedder, evaluated in whichever engine this operation names: what it
            // calls and reads (through a lambda without captures, through a plain call) belongs to THAT engine
            op["k"] = J("tree");
            op["i"] = J(int(plan.below(4)));
            break;
          case 21:
            op["k"] = J("loopfn");
            op["n"] = J(int(plan.range(1, 4)));
            break;
          default:
            // an attribute attached to a value the script has just computed (a literal, a comparison result):
            // it belongs to that value, another evaluation - in this or any other engine - never sees it
            op["k"] = J(plan.chance(450) ? "attrset" : "attrget");
            op["x"] = J(4 + int(plan.below(4))); // 0..3 (the shared bool constants) are known finding C14-K1 and not generated
            op["v"] = J(int(plan.range(1, 99)));
            break;
          }
        }
        ops.push(std::move(op));
      }
      p["sched"] = gen_sched(sched, T, uint64_t(n_ops) * 8);
      p["sched"]["cap"] = J(60000000LL); // every engine construction registers thousands of functions, each a lock/unlock yield
      return p;
    }

    RunResult execute(const J &plan) override {
      warm_up();
      RunResult r;
      static_assert(sizeof(ArenaSlot) >= sizeof(Engine), "arena slot too small");
      const int T = int(plan.at("actors").num(1));
      const J &ops = plan.at("ops");
      const std::string dir = run_dir() + "/c14/";
      ::mkdir(dir.c_str(), 0777);
      // in the middle of the file a harness hook runs: on some operations it creates a SECOND engine on
      // the same thread and lets it use the same file, nested inside the first engine's use()
      write_file(dir + "lib.chai", "bump();\nnested_hook();\ndef from_lib(x) { x + 5000 }\n");

      // syntax trees shared by every engine of the run (parsed by an engine that evaluates nothing and outlives the others)
      auto tree_parser = make_engine();
      const char *tree_src[4] = {"fun() { return fn0(0) }()", "fun() { return gl0 }()", "fn1(0)", "fun() { var tl = fun() { return fn0(0) }; return tl() + tl() - tl() }()"};
      AST_NodePtr trees[4];
      for (int i = 0; i < 4; ++i) {
        trees[i] = tree_parser->parse(tree_src[i]);
      }
      Engine *eng[N_SLOTS] = {nullptr, nullptr, nullptr, nullptr, nullptr};
      GenModel model[N_SLOTS];
      std::atomic<int> gen_counter{0}; // creations on different slots are not ordered with each other
      bool had_engine[N_SLOTS] = {false, false, false, false, false};
      std::set<void *> old_heap_addr[N_SLOTS]; // per slot: operations on one slot are ordered, across slots they are not
      std::vector<std::atomic<int>> done(ops.size());
      for (auto &d : done) {
        d.store(0);
      }
      // dependency: previous op on the same slot
      std::vector<int> dep(ops.size(), -1);
      {
        int last[N_SLOTS] = {-1, -1, -1, -1, -1};
        for (size_t i = 0; i < ops.size(); ++i) {
          const int s = int(ops[i].at("s").num()) % N_SLOTS;
          dep[i] = last[s];
          last[s] = int(i);
        }
      }
      std::vector<std::vector<size_t>> mine(static_cast<size_t>(T));
      for (size_t i = 0; i < ops.size(); ++i) {
        const int a = int(ops[i].at("a").num());
        if (a >= 0 && a < T) {
          mine[size_t(a)].push_back(i);
        } else {
          done[i].store(1);
        }
      }
      std::vector<std::string> fail(static_cast<size_t>(T));
      std::vector<std::map<std::string, int64_t>> cnt(static_cast<size_t>(T));
      std::vector<int> nested_armed(static_cast<size_t>(T), 0);
      std::vector<int> nested_order(static_cast<size_t>(T), 0);
      // the embedder's extension module: created once, outlives every engine of the run
      ModulePtr ext_mod = std::make_shared<Module>();
      ext_mod->add(fun([]() { return 4242; }), "modfn");
      ext_mod->add_global_const(const_var(4243), "modglobal");
      std::vector<std::string> nested_verdict(static_cast<size_t>(T));

      auto body = [&](int a) {
        auto bad = [&](size_t oi, const std::string &rule, const std::string &what) {
          if (fail[size_t(a)].empty()) {
            fail[size_t(a)] = rule + "\x01" + "op " + std::to_string(oi) + " " + ops[oi].dump() + ": " + what;
          }
        };
        for (size_t oi : mine[size_t(a)]) {
          const J &op = ops[oi];
          if (dep[oi] >= 0) {
            while (!done[size_t(dep[oi])].load()) {
              sim_block(&done[size_t(dep[oi])]);
            }
          }
          {
            OpScope scope;
            const std::string k = op.at("k").str();
            const int s = int(op.at("s").num()) % N_SLOTS;
            GenModel &m = model[s];
            std::string out = "-";
            auto expect = [&](const std::string &want, const char *rule = "foreign-or-wrong-value") {
              if (out != want) {
                bad(oi, rule, "got " + out + ", model of generation " + std::to_string(m.gen) + " says " + want);
              }
            };
            if (k == "create") {
              if (!eng[s]) {
                m = GenModel();
                m.gen = gen_counter.fetch_add(1) + 1;
                m.bumps = std::make_shared<std::atomic<int>>(0);
                if (op.at("extlib").truthy()) {
                  // the embedder extends its copy of the standard library before building the engine from it
                  ModulePtr lib = make_stdlib_module();
                  const int tagv = m.gen * 100 + 77;
                  try {
                    lib->add(fun([tagv]() { return tagv; }), "libfn");
                    lib->add_global_const(const_var(tagv + 1), "libglobal");
                    eng[s] = make_engine_from_module_at(s < N_ARENA ? static_cast<void *>(g_arena[s].bytes) : nullptr, lib, {dir});
                  } catch (...) {
                    // a fresh copy of the standard library cannot already contain what another engine's embedder added
                    bad(oi, "foreign-or-wrong-value", "building an engine from a freshly obtained, extended standard library failed: " + describe_current_exception(nullptr));
                    eng[s] = nullptr; // the slot stays empty: later operations on it are skipped
                  }
                  m.lib_extended = true;
                  cnt[size_t(a)]["probe_engine_built_from_extended_library"] += 1;
                } else {
                  try {
                    eng[s] = s < N_ARENA ? make_engine_at(g_arena[s].bytes, {dir}) : make_engine({dir}).release();
                  } catch (...) {
                    bad(oi, "foreign-or-wrong-value", "constructing a plain engine failed: " + describe_current_exception(nullptr));
                    eng[s] = nullptr;
                  }
                }
                if (!eng[s]) {
                  out = "creation-failed";
                  sim_log(2, uint64_t(oi), fnv1a(out));
                  done[oi].store(1);
                  sim_unblock_all(&done[oi]);
                  continue;
                }
                auto bumps = m.bumps;
                eng[s]->add(fun([bumps]() { bumps->fetch_add(1); }), "bump");
                eng[s]->add(fun([&nested_armed, &nested_order, &nested_verdict, &cnt, dir]() {
                              const int me = sim_self();
                              if (me < 0 || !nested_armed[size_t(me)]) {
                                return;
                              }
                              const int n_inner = nested_armed[size_t(me)];
                              nested_armed[size_t(me)] = 0;
                              // fresh engines, created, used and destroyed inside the outer engine's use(): each must
                              // behave like any fresh engine (evaluate the file once, see none of the outer state or of
                              // one another), and the outer evaluation must carry on undisturbed afterwards
                              std::vector<int> inner_bumps(size_t(n_inner), 0);
                              std::vector<std::unique_ptr<Engine>> inner;
                              for (int q = 0; q < n_inner; ++q) {
                                inner.push_back(make_engine({dir}));
                                int *ib = &inner_bumps[size_t(q)];
                                inner.back()->add(fun([ib]() { ++*ib; }), "bump");
                                inner.back()->add(fun([]() {}), "nested_hook");
                                const std::string mine = eval_show(*inner.back(), "var inner_secret = " + std::to_string(700 + q) + "; inner_secret");
                                if (mine != "=i:" + std::to_string(700 + q)) {
                                  nested_verdict[size_t(me)] = "nested engine " + std::to_string(q) + ": own variable -> " + mine;
                                }
                              }
                              for (int q = 0; q < n_inner; ++q) {
                                Engine &in = *inner[size_t(q)];
                                std::string v = eval_show(in, "use(\"lib.chai\"); from_lib(1)");
                                std::string l = eval_show(in, "secret");
                                std::string g = eval_show(in, "gl0");
                                std::string own = eval_show(in, "inner_secret");
                                if (v != "=i:5001" || inner_bumps[size_t(q)] != 1 || l.rfind("!eval_error|Can not find object", 0) != 0 || g.rfind("!eval_error|Can not find object", 0) != 0
                                    || own != "=i:" + std::to_string(700 + q)) {
                                  nested_verdict[size_t(me)] = "nested engine " + std::to_string(q) + " of " + std::to_string(n_inner) + ": use+from_lib -> " + v + ", file evaluated "
                                      + std::to_string(inner_bumps[size_t(q)]) + " times, secret -> " + l + ", gl0 -> " + g + ", inner_secret -> " + own;
                                }
                              }
                              if (nested_order[size_t(me)] == 0) {
                                while (!inner.empty()) {
                                  inner.erase(inner.begin()); // oldest first
                                  if (!inner.empty() && eval_show(*inner.back(), "inner_secret") != "=i:" + std::to_string(700 + n_inner - 1)) {
                                    nested_verdict[size_t(me)] = "nested engine lost its variable when an older sibling was destroyed";
                                  }
                                }
                              } else {
                                while (!inner.empty()) {
                                  inner.pop_back();
                                }
                              }
                              cnt[size_t(me)]["probe_engine_used_nested_inside_use_of_another"] += 1;
                              if (n_inner > 1) {
                                cnt[size_t(me)]["probe_several_engines_nested_inside_use_of_another"] += 1;
                              }
                            }),
                            "nested_hook");
                eng[s]->add(fun([](int v) { return CA{v}; }), "make_a");
                eng[s]->add(fun([](const CB &b) { return b.v; }), "takes_b");
                eng[s]->add(fun([](int v) { return CC{v}; }), "make_c");
                eng[s]->add(fun([](const Type_Info &ti) { return ti.bare_equal(user_type<CA>()) ? 1 : (ti.bare_equal(user_type<CC>()) ? 2 : 3); }), "thing_kind");
                eng[s]->add(fun([](const CD &d) { return d.v; }), "takes_d");
                cnt[size_t(a)]["engines_created"] += 1;
                if (had_engine[s] && s < N_ARENA) {
                  cnt[size_t(a)]["fault_engine_recreate_same_address"] += 1;
                }
                if (s >= N_ARENA) {
                  cnt[size_t(a)]["engines_created_on_heap"] += 1;
                  if (old_heap_addr[s].count(static_cast<void *>(eng[s]))) {
                    cnt[size_t(a)]["fault_engine_recreate_same_address"] += 1;
                    cnt[size_t(a)]["probe_heap_address_reused"] += 1;
                  }
                  old_heap_addr[s].insert(static_cast<void *>(eng[s]));
                }
                had_engine[s] = true;
                out = "created";
              }
            } else if (!eng[s]) {
              out = "skipped";
            } else if (k == "destroy") {
              if (s < N_ARENA) {
                eng[s]->~ChaiScript_Basic();
              } else {
                delete eng[s];
              }
              eng[s] = nullptr;
              cnt[size_t(a)]["fault_engine_destroy"] += 1;
              for (auto &kv : m.locals) {
                if (kv.first != a && !kv.second.empty()) {
                  cnt[size_t(a)]["probe_destroyed_by_other_thread_than_user"] += 1;
                }
              }
              out = "destroyed";
            } else {
              Engine &e = *eng[s];
              const int64_t tag = int64_t(m.gen) * 100;
              auto &myl = m.locals[a];
              if (k == "local") {
                const std::string name = op.at("name").str();
                const int64_t v = tag + op.at("v").num();
                out = eval_show(e, (myl.count(name) ? "" : "var ") + name + " = " + std::to_string(v));
                myl[name] = v;
                expect("=i:" + std::to_string(v));
              } else if (k == "lread") {
                const std::string name = op.at("name").str();
                out = eval_show(e, name);
                expect(myl.count(name) ? "=i:" + std::to_string(myl[name]) : "!eval_error|Can not find object: " + name);
              } else if (k == "locals") {
                out = "locals";
                for (auto &kv : e.get_locals()) {
                  out += " " + kv.first + "=" + show(kv.second, &e);
                }
                std::string want = "locals";
                for (auto &kv : myl) {
                  want += " " + kv.first + "=i:" + std::to_string(kv.second);
                }
                expect(want);
              } else if (k == "def") {
                const int i = int(op.at("i").num());
                const int64_t v = tag + op.at("v").num();
                out = eval_show(e, "def fn" + std::to_string(i) + "(q) { q + " + std::to_string(v) + " }");
                if (m.fns.count(i)) {
                  expect("!eval_error|Function redefined 'fn" + std::to_string(i) + "'");
                } else {
                  expect("=void");
                  m.fns[i] = v;
                }
              } else if (k == "call") {
                const int i = int(op.at("i").num());
                out = eval_show(e, "fn" + std::to_string(i) + "(0)");
                expect(m.fns.count(i) ? "=i:" + std::to_string(m.fns[i]) : "!eval_error|Can not find object: fn" + std::to_string(i));
              } else if (k == "glob") {
                const int i = int(op.at("i").num());
                const int64_t v = tag + op.at("v").num();
                const std::string name = "gl" + std::to_string(i);
                if (m.globs.count(i)) {
                  out = eval_show(e, name + " = " + std::to_string(v));
                } else {
                  out = eval_show(e, "global " + name + " = " + std::to_string(v));
                }
                m.globs[i] = v;
                expect("=i:" + std::to_string(v));
              } else if (k == "gread") {
                const int i = int(op.at("i").num());
                out = eval_show(e, "gl" + std::to_string(i));
                expect(m.globs.count(i) ? "=i:" + std::to_string(m.globs[i]) : "!eval_error|Can not find object: gl" + std::to_string(i));
              } else if (k == "conv") {
                try {
                  if (m.gen % 2 == 0) {
                    e.add(type_conversion<CA, CB>([](const CA &x) { return CB{x.v + 1}; }));
                  } else {
                    e.add(type_conversion<CC, CD>([](const CC &x) { return CD{x.v + 1}; }));
                  }
                  out = "added";
                } catch (const exception::conversion_error &) {
                  out = "conflict";
                }
                expect(m.conv ? "conflict" : "added");
                m.conv = true;
              } else if (k == "needconv") {
                // this generation's own pair must work once registered; the other pair never does
                out = eval_show(e, m.gen % 2 == 0 ? "takes_b(make_a(4))" : "takes_d(make_c(4))");
                const std::string other = eval_show(e, m.gen % 2 == 0 ? "takes_d(make_c(4))" : "takes_b(make_a(4))");
                if (other.rfind("!eval_error|", 0) != 0) {
                  bad(oi, "foreign-or-wrong-value", "a conversion this engine never registered was usable: " + other);
                }
                if (m.conv) {
                  expect("=i:5");
                } else if (out.rfind("!eval_error|Error calling function", 0) != 0 && out.rfind("!eval_error|Error with function dispatch", 0) != 0) {
                  bad(oi, "foreign-or-wrong-value", "conversion registered only in another engine was usable: " + out);
                }
              } else if (k == "use") {
                const int before = m.bumps->load();
                nested_armed[size_t(a)] = int(op.at("nested").num(0)) % 4; // (older replay files hold true/false)
                if (nested_armed[size_t(a)] == 0 && op.at("nested").truthy()) {
                  nested_armed[size_t(a)] = 1;
                }
                nested_order[size_t(a)] = op.has("nested_order") ? int(op.at("nested_order").num(0)) : 1;
                out = eval_show(e, "use(\"lib.chai\")");
                nested_armed[size_t(a)] = 0;
                if (!nested_verdict[size_t(a)].empty()) {
                  bad(oi, "foreign-or-wrong-value", nested_verdict[size_t(a)]);
                  nested_verdict[size_t(a)].clear();
                }
                const int after = m.bumps->load();
                if (out.rfind("=", 0) != 0) {
                  bad(oi, "use-failed", out);
                }
                if (after - before != (m.used ? 0 : 1)) {
                  bad(oi, "used-file-record-leaked", "use() evaluated the file " + std::to_string(after - before) + " times; this generation had " + (m.used ? "already" : "not yet") + " used it");
                }
                m.used = true;
              } else if (k == "calluse") {
                out = eval_show(e, "from_lib(1)");
                expect(m.used ? "=i:5001" : "!eval_error|Can not find object: from_lib");
              } else if (k == "calllib") {
                out = eval_show(e, "libfn() + libglobal");
                const int64_t tagv = int64_t(m.gen) * 100 + 77;
                if (m.lib_extended) {
                  expect("=i:" + std::to_string(tagv + tagv + 1));
                } else if (out.rfind("!eval_error|Can not find object", 0) != 0) {
                  bad(oi, "foreign-or-wrong-value", "a function / global from another engine's extended library is visible: " + out);
                }
              } else if (k == "addthing") {
                try {
                  if (m.gen % 2 == 0) {
                    e.add(user_type<CA>(), "Thing");
                  } else {
                    e.add(user_type<CC>(), "Thing");
                  }
                  out = "added";
                } catch (const exception::name_conflict_error &) {
                  out = "conflict";
                }
                expect(m.thing ? "conflict" : "added");
                m.thing = true;
              } else if (k == "readthing") {
                out = eval_show(e, "type(\"Thing\", false).is_type_undef() ? 0 : thing_kind(type(\"Thing\"))");
                expect(!m.thing ? std::string("=i:0") : (m.gen % 2 == 0 ? "=i:1" : "=i:2"));
              } else if (k == "addmod") {
                if (!m.mod) {
                  try {
                    e.add(ext_mod);
                    out = "added";
                  } catch (...) {
                    out = "!" + describe_current_exception(&e);
                  }
                  m.mod = true;
                  expect("added");
                  cnt[size_t(a)]["probe_long_lived_module_added"] += 1;
                } else {
                  out = "skipped";
                }
              } else if (k == "callmod") {
                out = eval_show(e, "modfn() + modglobal");
                if (m.mod) {
                  expect("=i:8485");
                } else if (out.rfind("!eval_error|Can not find object", 0) != 0) {
                  bad(oi, "foreign-or-wrong-value", "the extension module was added to another engine only, yet here: " + out);
                }
              } else if (k == "attrset" || k == "attrget") {
                static const char *vals[] = {"true", "false", "(1 < 2)", "(2 == 3)", "5", "\"s\"", "(3 + 4)", "to_string(12)"};
                const std::string x = vals[op.at("x").num() % 8];
                if (k == "attrset") {
                  out = eval_show(e, "get_var_attr(" + x + ", \"mark\") = " + std::to_string(tag + op.at("v").num()) + "; 0");
                  expect("=i:0");
                  cnt[size_t(a)]["probe_attribute_attached_to_computed_value"] += 1;
                } else {
                  out = eval_show(e, "get_var_attr(" + x + ", \"mark\").is_var_undef() ? 0 : get_var_attr(" + x + ", \"mark\")");
                  expect("=i:0");
                }
              } else if (k == "tree") {
                const int i = int(op.at("i").num()) % 4;
                try {
                  out = "=" + show(e.eval(*trees[i]), &e);
                } catch (...) {
                  out = "!" + describe_current_exception(&e);
                }
                cnt[size_t(a)]["probe_shared_tree_evaluated"] += 1;
                const int fn = (i == 2) ? 1 : 0;
                if (i == 1) {
                  if (m.globs.count(0) ? out != "=i:" + std::to_string(m.globs[0]) : (out[0] != '!' || out.find("Can not find object: gl0") == std::string::npos)) {
                    bad(oi, "foreign-or-wrong-value", "shared tree '" + std::string(tree_src[i]) + "' gave " + out + ", model of generation " + std::to_string(m.gen) + " has gl0 " + (m.globs.count(0) ? std::to_string(m.globs[0]) : std::string("absent")));
                  }
                } else if (m.fns.count(fn) ? out != "=i:" + std::to_string(m.fns[fn]) : (out[0] != '!' || out.find("Can not find object: fn" + std::to_string(fn)) == std::string::npos)) {
                  bad(oi, "foreign-or-wrong-value", "shared tree '" + std::string(tree_src[i]) + "' gave " + out + ", model of generation " + std::to_string(m.gen) + " has fn" + std::to_string(fn) + " " + (m.fns.count(fn) ? std::to_string(m.fns[fn]) : std::string("absent")));
                }
              } else if (k == "loopfn") {
                // a fresh function scope with locals: must not see top-level locals of other generations
                out = eval_show(e, "fun(n) { var acc = 0; for (var i = 0; i < n; ++i) { acc += i }; return acc }(" + std::to_string(op.at("n").num()) + ")");
                const int64_t n = op.at("n").num();
                expect("=i:" + std::to_string(n * (n - 1) / 2));
              }
            }
            sim_log(2, uint64_t(oi), fnv1a(out));
          }
          done[oi].store(1);
          sim_unblock_all(&done[oi]);
        }
      };

      ActorRun ar = run_actors(plan.at("sched"), T, body, r);
      r.event_hash = ar.stats.event_hash;
      r.recorded_sched = ar.recorded;
      if (ar.result != SIM_OK) {
        r.nontrivial = true;
        r.distinct_key = ar.stats.interleaving_hash;
        return r;
      }
      for (int s = 0; s < N_SLOTS; ++s) {
        if (eng[s]) {
          if (s < N_ARENA) {
            eng[s]->~ChaiScript_Basic();
          } else {
            delete eng[s];
          }
        }
      }
      for (int a = 0; a < T; ++a) {
        if (!fail[size_t(a)].empty()) {
          const size_t sep = fail[size_t(a)].find('\x01');
          r.fail(fail[size_t(a)].substr(0, sep), fail[size_t(a)].substr(sep + 1));
        }
        for (auto &kv : cnt[size_t(a)]) {
          r.counters[kv.first] += kv.second;
        }
      }
      // reach probe: did some generation > 1 run on a slot whose previous generation was used by a
      // thread other than the one that destroyed it?  (counted at destroy time above)
      r.counters["ops"] += int64_t(ops.size());
      r.counters["actors"] += T;
      r.nontrivial = r.counters["fault_engine_destroy"] > 0 || ar.stats.switches > 0;
      uint64_t shape = 0xcbf29ce484222325ULL;
      for (size_t i = 0; i < ops.size(); ++i) {
        shape = fnv1a(ops[i].at("k").str(), shape) * 31 + uint64_t(ops[i].at("a").num()) * 7 + uint64_t(ops[i].at("s").num());
      }
      r.distinct_key = shape ^ ar.stats.interleaving_hash;
      return r;
    }
  };

  C14 g_c14;
  RegisterWorld reg_c14(&g_c14);
} // namespace
