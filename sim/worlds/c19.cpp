// World C19 — evaluating a file means evaluating its bytes; use() evaluates once.
//
// System under simulation: one engine with 1..3 use-path directories, a private directory tree
// with up to 5 file names, and the simulated file layer (interposed fopen/read): per-operation
// short reads, EINTR, failing opens.  Operations: eval_file (C++ API, exact path), eval_file /
// use from script and from C++ (search-path lookup), create / overwrite / delete a file between
// operations.
// Oracle: a twin engine on which every file evaluation is replaced by eval(<bytes minus one
// leading BOM>) as decided by a small model of the search path and the used-file set; result
// value+type, t()/bump() trace and exception class+payload of every operation must be equal.
// Fixed cases (run completely in both tiers): every file length 0..8 x {no BOM, BOM, partial BOM}
// x {no fault, short reads, EINTR} x {eval_file, use}.
#include "simworld.hpp"

#include "filelayer.h"

#include <set>
#include <sys/stat.h>
#include <unistd.h>

using namespace verif;
using namespace chaiscript;

namespace {

  const char *BOM = "\xef\xbb\xbf";
  const char *fnames[] = {"a.chai", "b.chai", "c.chai", "d.chai", "missing.chai"};
  const char *dnames[] = {"d0/", "d1/", "d2/"};

  std::string short_content(int len) {
    static const char *t[] = {"", "7", "42", "1+2", "11+2", "1+2+3", "11+2+3", "1+2+3+4", "11+2+3+4"};
    return t[len];
  }

  std::string strip_one_bom(const std::string &c) { return c.compare(0, 3, BOM) == 0 ? c.substr(3) : c; }

  struct Side {
    std::unique_ptr<Engine> e;
    std::vector<int> trace;
  };

  void register_common(Side &s) {
    auto *tr = &s.trace;
    s.e->add(fun([tr](int n) { tr->push_back(n); }), "t");
    s.e->add(fun([tr]() { tr->push_back(-1); }), "bump");
  }

  std::string render(Engine &e, const std::function<Boxed_Value()> &f) {
    try {
      return "=" + show(f(), &e);
    } catch (...) {
      return "!" + describe_current_exception(&e);
    }
  }

  class C19 : public World {
  public:
    const char *id() const override { return "C19"; }

    // ---- fixed matrix
    size_t fixed_cases() override { return 9 * 3 * 3 * 2; }
    J fixed_case(size_t idx) override {
      const int api = int(idx % 2);
      const int fault = int((idx / 2) % 3);
      const int bom = int((idx / 6) % 3);
      const int len = int(idx / 18);
      J p = J::object();
      J dirs = J::array();
      dirs.push(J(0));
      p["paths"] = dirs;
      p["ops"] = J::array();
      std::string content;
      if (bom == 1) {
        content = std::string(BOM) + short_content(len);
      } else if (bom == 2) {
        // partial BOM: the first min(2, len) bytes of a BOM followed by program text
        const int nb = std::min(2, len);
        content = std::string(BOM, size_t(nb)) + short_content(len - nb);
      } else {
        content = short_content(len);
      }
      J w = J::object();
      w["k"] = J("write");
      w["d"] = J(0);
      w["f"] = J(0);
      w["c"] = J(content);
      p["ops"].push(w);
      J o = J::object();
      o["k"] = J(api == 0 ? "eval_file_cpp" : "use_cpp");
      o["d"] = J(0);
      o["f"] = J(0);
      J rp = J::array();
      if (fault == 1) {
        for (int i = 0; i < 12; ++i) {
          rp.push(J(1));
        }
      } else if (fault == 2) {
        rp.push(J(-1));
        rp.push(J(0));
        rp.push(J(-1));
        rp.push(J(-1));
      }
      o["reads"] = rp;
      p["ops"].push(o);
      p["label"] = J("len=" + std::to_string(content.size()) + " bom=" + std::to_string(bom) + " fault=" + std::to_string(fault) + " api=" + std::to_string(api));
      return p;
    }

    // ---- random histories
    static std::string gen_content(Rng &rng, int self) {
      std::string c;
      if (rng.chance(150)) {
        c += BOM;
        if (rng.chance(100)) {
          c += BOM;
        }
      }
      const std::string nl = rng.chance(250) ? "\r\n" : "\n";
      if (rng.chance(120)) {
        c += "#!/usr/bin/env chai" + nl;
      }
      if (rng.chance(60)) {
        return c; // empty (or BOM / shebang only) file
      }
      const int lines = int(rng.range(0, 6));
      for (int i = 0; i < lines; ++i) {
        switch (rng.below(8)) {
        case 7: {
          // line ends, carriage returns and tabs as DATA: inside a quoted string that spans lines every byte counts
          const char *raw[6] = {"\r\n", "\n", "\r", "\r\n\r\n", "\t", "\n\r"};
          c += std::string("t(\"s") + raw[rng.below(6)] + "e" + (rng.chance(300) ? raw[rng.below(6)] : "") + "\".size())" + nl;
          break;
        }
        case 0:
        case 1:
          c += "t(" + std::to_string(rng.range(1, 99)) + ")" + nl;
          break;
        case 2:
          c += "bump()" + nl;
          break;
        case 3:
          c += "def fn_" + std::to_string(self) + "_" + std::to_string(rng.below(3)) + "(x) { x + " + std::to_string(rng.range(1, 99)) + " }" + nl;
          break;
        case 4: {
          const int other = int(rng.below(5));
          if (other != self) {
            c += std::string("use(\"") + fnames[other] + "\")" + nl;
          }
          break;
        }
        case 5:
          c += "var q_" + std::to_string(self) + "_" + std::to_string(rng.below(3)) + " = " + std::to_string(rng.range(1, 99)) + nl;
          break;
        default:
          c += "// comment " + std::to_string(rng.range(1, 99)) + nl;
          break;
        }
      }
      if (rng.chance(80)) {
        // the file's value is a string with a line end inside it
        c += std::string("\"v") + (rng.chance(500) ? "\r\n" : "\n") + "w\"";
        if (rng.chance(300)) {
          c += nl;
        }
      } else if (rng.chance(700)) {
        c += std::to_string(rng.range(1, 9999));
        if (rng.chance(300)) {
          c += nl;
        }
      }
      if (rng.chance(60)) {
        c.append(size_t(rng.range(1, 3)), '\0');
      }
      if (rng.chance(40)) {
        c += "}{";
      }
      return c;
    }

    J generate(uint64_t run_seed, const std::string &tier) override {
      Rng plan(mix(run_seed, 1)), faults(mix(run_seed, 2));
      const bool thorough = tier == "thorough";
      J p = J::object();
      const int ndirs = int(plan.range(1, 3));
      // permutation of the search path
      std::vector<int> perm = {0, 1, 2};
      for (int i = 2; i > 0; --i) {
        std::swap(perm[size_t(i)], perm[size_t(plan.below(uint64_t(i + 1)))]);
      }
      J &paths = p["paths"];
      paths = J::array();
      for (int i = 0; i < ndirs; ++i) {
        paths.push(J(perm[size_t(i)]));
      }
      J &ops = p["ops"];
      ops = J::array();
      const int n = int(plan.range(2, thorough ? 16 : 12));
      const bool with_faults = faults.chance(600);
      std::vector<std::pair<int, int>> existing; // (dir, file) written so far
      int n_snaps = 0;
      for (int i = 0; i < n; ++i) {
        J op = J::object();
        int f = int(plan.below(5));
        int d = int(plan.below(3));
        const int k = int(plan.below(i < 3 ? 3 : 15));
        if (k >= 3 && !existing.empty() && plan.chance(850)) {
          // most operations name a file that exists somewhere (possibly outside the search path)
          const auto &e = existing[size_t(plan.below(existing.size()))];
          d = e.first;
          f = e.second;
        }
        op["d"] = J(d);
        op["f"] = J(f);
        if (k < 3) {
          op["k"] = J("write");
          op["f"] = J(int(plan.below(4)));
          op["c"] = J(gen_content(plan, int(op.at("f").num())));
          existing.emplace_back(d, int(op.at("f").num()));
        } else if (k == 3) {
          op["k"] = J("delete");
        } else if (k == 14) {
          // a DIRECTORY with the name of a script file: it can be opened but is not a file, the search goes on
          op["k"] = J("mkdir");
          op["f"] = J(int(plan.below(4)));
        } else if (k >= 12) {
          // the host takes a snapshot of the engine state / goes back to one: the used-file records go back with it,
          // a file used since then is evaluated again by the next use()
          op["k"] = J(k == 12 || n_snaps == 0 ? "snap" : "restore");
          if (op.at("k").str() == "snap") {
            ++n_snaps;
          } else {
            op["i"] = J(int(plan.below(uint64_t(n_snaps))));
          }
        } else {
          static const char *apis[] = {"eval_file_cpp", "use_cpp", "use_script", "eval_file_script", "use_cpp", "use_script", "call_fn", "eval_file_cpp", "use_abs", "eval_file_script_abs"};
          op["k"] = J(apis[plan.below(10)]);
          if (with_faults && faults.chance(500)) {
            J rp = J::array();
            const int m = int(faults.range(1, 8));
            for (int q = 0; q < m; ++q) {
              const int kind = int(faults.below(4));
              rp.push(J(kind == 0 ? -1 : (kind == 1 ? 0 : int(faults.range(1, 7)))));
            }
            op["reads"] = rp;
          }
          if (with_faults && faults.chance(150)) {
            op["open_fail_d"] = J(int(faults.below(3)));
          }
        }
        ops.push(std::move(op));
      }
      return p;
    }

    RunResult execute(const J &plan) override {
      RunResult r;
      const std::string root = run_dir() + "/c19/";
      ::mkdir(root.c_str(), 0777);
      for (auto d : dnames) {
        ::mkdir((root + d).c_str(), 0777);
        for (auto f : fnames) {
          ::rmdir((root + d + f).c_str());
          ::unlink((root + d + f).c_str());
        }
      }
      std::vector<std::string> use_paths;
      for (size_t i = 0; i < plan.at("paths").size(); ++i) {
        use_paths.push_back(root + dnames[plan.at("paths")[i].num() % 3]);
      }
      fl_reset();
      fl_track_prefix(root.c_str());

      // ---- real side
      Side real;
      real.e = make_engine(use_paths);
      register_common(real);

      // ---- twin side: no file access at all; use / eval_file are model functions
      Side twin;
      twin.e = std::make_unique<Engine>(create_stdlib_for_twin(), create_parser_for_twin(), std::vector<std::string>{}, std::vector<std::string>{},
                                        std::vector<Options>{Options::No_Load_Modules, Options::No_External_Scripts});
      register_common(twin);
      std::map<std::string, std::string> disk; // full path -> content (the model's view of the directory tree)
      std::set<std::string> used;              // the model's used-file set
      std::set<std::string> open_fail;         // paths whose open fails during the current operation
      std::set<std::string> dirs;              // directories that carry the name of a script file (never "present")
      Engine *te = twin.e.get();
      auto present = [&](const std::string &p) { return disk.count(p) && !open_fail.count(p); };
      std::function<Boxed_Value(const std::string &)> model_use = [&](const std::string &name) -> Boxed_Value {
        for (auto &dir : use_paths) {
          const std::string p = dir + name;
          if (used.count(p)) {
            return Boxed_Value(); // named before: a no-op, whether or not the file still exists
          }
          if (!present(p)) {
            continue;
          }
          // "the first time it is named": the file counts as used from the moment its evaluation
          // starts (a file that names itself again, directly or through others, gets the no-op);
          // an evaluation that fails leaves it un-used, so a later use() may try again
          used.insert(p);
          try {
            return te->eval(strip_one_bom(disk[p]), Exception_Handler(), p);
          } catch (...) {
            used.erase(p);
            throw;
          }
        }
        throw exception::file_not_found_error(name);
      };
      twin.e->add(fun([&](const std::string &name) { return model_use(name); }), "use");
      twin.e->add(fun([&](const std::string &name) -> Boxed_Value {
                    for (auto &dir : use_paths) {
                      const std::string p = dir + name;
                      if (!present(p)) {
                        continue;
                      }
                      try {
                        return te->eval(strip_one_bom(disk[p]), Exception_Handler(), p);
                      } catch (const exception::eval_error &ee) {
                        throw Boxed_Value(ee);
                      }
                    }
                    throw exception::file_not_found_error(name);
                  }),
                  "eval_file");

      std::vector<Engine::State> real_snaps, twin_snaps;
      std::vector<std::set<std::string>> used_snaps;
      uint64_t h = 0xcbf29ce484222325ULL;
      const J &ops = plan.at("ops");
      for (size_t i = 0; i < ops.size(); ++i) {
        const J &op = ops[i];
        const std::string k = op.at("k").str();
        const std::string dir = root + dnames[op.at("d").num() % 3];
        const std::string name = fnames[op.at("f").num() % 5];
        const std::string path = dir + name;
        if (k == "mkdir") {
          if (!disk.count(path) && !dirs.count(path) && ::mkdir(path.c_str(), 0777) == 0) {
            dirs.insert(path);
            r.counters["probe_directory_named_like_a_script"] += 1;
          }
          continue;
        }
        if (k == "write" && dirs.count(path)) {
          continue; // the name is taken by a directory
        }
        if (k == "write") {
          write_file(path, op.at("c").str());
          disk[path] = op.at("c").str();
          r.counters["files_written"] += 1;
          if (op.at("c").str().size() < 3) {
            r.counters["probe_file_shorter_than_bom"] += 1;
          }
          continue;
        }
        if (k == "delete") {
          if (dirs.count(path)) {
            ::rmdir(path.c_str());
            dirs.erase(path);
          }
          ::unlink(path.c_str());
          disk.erase(path);
          continue;
        }
        if (k == "snap") {
          real_snaps.push_back(real.e->get_state());
          twin_snaps.push_back(twin.e->get_state());
          used_snaps.push_back(used);
          continue;
        }
        if (k == "restore") {
          if (!real_snaps.empty()) {
            const size_t si = size_t(op.at("i").num()) % real_snaps.size();
            real.e->set_state(real_snaps[si]);
            twin.e->set_state(twin_snaps[si]);
            used = used_snaps[si];
            r.counters["fault_state_restored_between_file_operations"] += 1;
          }
          continue;
        }
        // faults of this operation
        fl_clear_faults();
        open_fail.clear();
        if (op.has("reads")) {
          std::vector<int> rp;
          for (size_t q = 0; q < op.at("reads").size(); ++q) {
            rp.push_back(int(op.at("reads")[q].num()));
          }
          fl_set_read_plan(rp.data(), int(rp.size()));
        }
        if (op.has("open_fail_d")) {
          const std::string fp = root + dnames[op.at("open_fail_d").num() % 3] + name;
          fl_fail_open(fp.c_str());
          open_fail.insert(fp);
        }
        real.trace.clear();
        twin.trace.clear();
        std::string got, want;
        if (k == "eval_file_cpp") {
          got = render(*real.e, [&]() { return real.e->eval_file(path); });
          want = render(*twin.e, [&]() -> Boxed_Value {
            if (!present(path)) {
              throw exception::file_not_found_error(path);
            }
            return twin.e->eval(strip_one_bom(disk[path]), Exception_Handler(), path);
          });
        } else if (k == "use_cpp") {
          got = render(*real.e, [&]() { return real.e->use(name); });
          want = render(*twin.e, [&]() { return model_use(name); });
        } else if (k == "use_script") {
          got = render(*real.e, [&]() { return real.e->eval("use(\"" + name + "\")"); });
          want = render(*twin.e, [&]() { return twin.e->eval("use(\"" + name + "\")"); });
        } else if (k == "eval_file_script") {
          got = render(*real.e, [&]() { return real.e->eval("eval_file(\"" + name + "\")"); });
          want = render(*twin.e, [&]() { return twin.e->eval("eval_file(\"" + name + "\")"); });
        } else if (k == "use_abs" || k == "eval_file_script_abs") {
          // the file is named by its absolute path: every configured use path is a prefix that is put in
          // front of the name, and no configured path is empty, so the lookup must fail whether or not the file exists
          const bool is_use = k == "use_abs";
          got = render(*real.e, [&]() { return is_use ? real.e->use(path) : real.e->eval("eval_file(\"" + path + "\")"); });
          want = "!file_not_found_error|" + path;
          r.counters["probe_lookup_by_absolute_name"] += 1;
        } else if (k == "call_fn") {
          const std::string s = "fn_" + std::to_string(op.at("f").num() % 5) + "_" + std::to_string(op.at("d").num() % 3) + "(1)";
          got = render(*real.e, [&]() { return real.e->eval(s); });
          want = render(*twin.e, [&]() { return twin.e->eval(s); });
        } else {
          continue;
        }
        fl_clear_faults();
        open_fail.clear();
        std::string gt, wt;
        for (int v : real.trace) {
          gt += std::to_string(v) + ",";
        }
        for (int v : twin.trace) {
          wt += std::to_string(v) + ",";
        }
        {
          // the run directory contains the process id: keep it out of the event hash
          std::string norm = got;
          for (size_t pos = norm.find(root); pos != std::string::npos; pos = norm.find(root)) {
            norm.replace(pos, root.size(), "<root>/");
          }
          h = fnv1a(norm + "|" + gt, h);
        }
        r.counters["ops"] += 1;
        if (got[0] == '!') {
          r.counters["probe_operation_raised"] += 1;
        }
        if (got.rfind("!file_not_found_error", 0) == 0) {
          r.counters["probe_file_not_found"] += 1;
        }
        if (got != want || gt != wt) {
          std::string bytes;
          if (disk.count(path)) {
            for (unsigned char ch : disk[path]) {
              char b[8];
              snprintf(b, sizeof(b), "%02x", ch);
              bytes += b;
            }
          }
          r.fail(want.rfind("!file_not_found_error", 0) == 0 || got.rfind("!file_not_found_error", 0) == 0 ? "file-lookup-differs-from-model" : "eval_file-differs-from-eval-of-bytes",
                 "op " + std::to_string(i) + " " + k + " " + name + " (bytes of " + path.substr(root.size()) + ": " + bytes + "): engine gave " + got + " trace [" + gt + "], eval of the bytes gives " + want
                     + " trace [" + wt + "]");
          break;
        }
      }
      const FlStats *fs = fl_stats();
      r.counters["fault_short_read"] += int64_t(fs->short_reads);
      r.counters["fault_eintr"] += int64_t(fs->eintr);
      r.counters["fault_open_fail"] += int64_t(fs->open_fail);
      r.counters["file_reads"] += int64_t(fs->reads);
      r.counters["file_opens"] += int64_t(fs->opens);
      r.counters["file_bytes"] += int64_t(fs->bytes);
      r.nontrivial = fs->short_reads + fs->eintr + fs->open_fail > 0 || r.counters["ops"] > 0;
      fl_reset();
      r.event_hash = h;
      r.distinct_key = fnv1a(plan.at("ops").dump()) ^ fnv1a(plan.at("paths").dump());
      return r;
    }

  private:
    static ModulePtr create_stdlib_for_twin();
    static std::unique_ptr<parser::ChaiScript_Parser_Base> create_parser_for_twin();
  };

} // namespace

#include <chaiscript_parser.hpp>
#include <chaiscript_stdlib.hpp>

namespace {
  ModulePtr C19::create_stdlib_for_twin() { return create_chaiscript_stdlib(); }
  std::unique_ptr<parser::ChaiScript_Parser_Base> C19::create_parser_for_twin() { return create_chaiscript_parser(); }

  C19 g_c19;
  RegisterWorld reg_c19(&g_c19);
} // namespace
