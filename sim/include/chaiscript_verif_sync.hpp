// H1 seam: mutex types that hand every acquisition / release to the deterministic
// scheduler (sim/core/sched.cpp).  Outside a simulation run (sim_active()==0) they
// forward to the real std:: mutex, so behaviour is unchanged.
//
// The real mutex is always taken (try_lock in simulation) so that ThreadSanitizer
// sees exactly the happens-before edges ChaiScript's own locking provides.
#ifndef CHAISCRIPT_VERIF_SYNC_HPP_
#define CHAISCRIPT_VERIF_SYNC_HPP_

#include <atomic>
#include <mutex>
#include <shared_mutex>

extern "C" {
int sim_active(void);                              // calling thread is an actor inside a run
void sim_yield(int site_kind, const void *obj);    // scheduling point; may switch actors
void sim_block(const void *obj);                   // try_lock failed: park until obj is released
void sim_unblock_all(const void *obj);             // obj released: waiters become runnable
}

namespace chaiscript_verif {
  enum Site : int {
    site_lock_excl = 1,
    site_lock_shared = 2,
    site_lock_rec = 3,
    site_unlock = 4,
    site_op_begin = 5,
    site_op_end = 6,
    site_callback = 7,
    site_file = 8,
    site_blocked = 9,
    site_hint = 10
  };

  class shared_mutex {
  public:
    shared_mutex() = default;
    shared_mutex(const shared_mutex &) = delete;
    shared_mutex &operator=(const shared_mutex &) = delete;

    void lock() {
      if (!sim_active()) {
        m_real.lock();
        return;
      }
      for (;;) {
        sim_yield(site_lock_excl, this);
        if (m_real.try_lock()) {
          return;
        }
        sim_block(this);
      }
    }
    bool try_lock() { return m_real.try_lock(); }
    void unlock() {
      m_real.unlock();
      if (sim_active()) {
        sim_unblock_all(this);
        sim_yield(site_unlock, this);
      }
    }
    void lock_shared() {
      if (!sim_active()) {
        m_real.lock_shared();
        return;
      }
      for (;;) {
        sim_yield(site_lock_shared, this);
        if (m_real.try_lock_shared()) {
          return;
        }
        sim_block(this);
      }
    }
    bool try_lock_shared() { return m_real.try_lock_shared(); }
    void unlock_shared() {
      m_real.unlock_shared();
      if (sim_active()) {
        sim_unblock_all(this);
        sim_yield(site_unlock, this);
      }
    }

  private:
    std::shared_mutex m_real;
  };

  template<typename Real, int Kind>
  class basic_mutex {
  public:
    basic_mutex() = default;
    basic_mutex(const basic_mutex &) = delete;
    basic_mutex &operator=(const basic_mutex &) = delete;

    void lock() {
      if (!sim_active()) {
        m_real.lock();
        return;
      }
      for (;;) {
        sim_yield(Kind, this);
        if (m_real.try_lock()) {
          return;
        }
        sim_block(this);
      }
    }
    bool try_lock() { return m_real.try_lock(); }
    void unlock() {
      m_real.unlock();
      if (sim_active()) {
        sim_unblock_all(this);
        sim_yield(site_unlock, this);
      }
    }

  private:
    Real m_real;
  };

  using mutex = basic_mutex<std::mutex, site_lock_excl>;
  using recursive_mutex = basic_mutex<std::recursive_mutex, site_lock_rec>;

  // H4 seam: the per-node lookup hints are atomics shared by every thread that evaluates the node; the
  // places where a lookup reads or is about to write one are scheduling points when a world asks for it
  // (off by default: every identifier lookup would otherwise be a yield)
  inline std::atomic<bool> &hint_points_enabled() {
    static std::atomic<bool> flag{false};
    return flag;
  }
  inline void hint_point(const void *obj) {
    if (hint_points_enabled().load(std::memory_order_relaxed) && sim_active()) {
      sim_yield(site_hint, obj);
    }
  }
} // namespace chaiscript_verif

#endif
