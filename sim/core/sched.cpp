// Deterministic baton-passing scheduler.  See sched.h.
//
// Exactly one actor thread runs at any time.  All scheduler state is touched only by the thread
// that holds the baton (or by main before/after the run); the hand-off itself is a futex word per
// actor written with __atomic release and read with acquire.  No C++ library templates are used
// here on purpose: this TU must stay free of sanitizer instrumentation (inline library functions
// could be resolved to an instrumented copy from another TU at link time).
#include "simsched.h"

#include <errno.h>
#include <limits.h>
#include <linux/futex.h>
#include <string.h>
#include <sys/syscall.h>
#include <unistd.h>

namespace {

enum { ST_NOTSTARTED = 0, ST_RUNNABLE = 1, ST_BLOCKED = 2, ST_DONE = 3 };

struct Actor {
  int state;
  const void *blocked_on;
  uint32_t go; // futex word: 1 = you hold the baton
  int prio;
};

SimConfig g_cfg;
Actor g_actor[SIM_MAX_ACTORS];
int g_current = -1;
int g_running = 0;
uint32_t g_done_word = 0; // futex word main waits on
uint32_t g_arrived = 0;   // number of actors parked in sim_actor_begin
SimStats g_stats;
SimChoice g_choices[SIM_MAX_CHOICES];
uint32_t g_next_explicit = 0;
uint64_t g_rng[4];
uint32_t g_pct_points[SIM_MAX_PCT];
int g_pct_next_low = 0;

thread_local int tl_actor = -1;

inline long futex(uint32_t *addr, int op, uint32_t val) { return syscall(SYS_futex, addr, op, val, nullptr, nullptr, 0); }

void futex_wait_for(uint32_t *addr, uint32_t want) {
  for (;;) {
    uint32_t v = __atomic_load_n(addr, __ATOMIC_ACQUIRE);
    if (v == want) {
      return;
    }
    futex(addr, FUTEX_WAIT_PRIVATE, v);
  }
}

void futex_set_wake(uint32_t *addr, uint32_t val) {
  __atomic_store_n(addr, val, __ATOMIC_RELEASE);
  futex(addr, FUTEX_WAKE_PRIVATE, INT_MAX);
}

inline uint64_t rotl(uint64_t x, int k) { return (x << k) | (x >> (64 - k)); }

uint64_t splitmix(uint64_t &s) {
  uint64_t z = (s += 0x9e3779b97f4a7c15ULL);
  z = (z ^ (z >> 30)) * 0xbf58476d1ce4e5b9ULL;
  z = (z ^ (z >> 27)) * 0x94d049bb133111ebULL;
  return z ^ (z >> 31);
}

uint64_t rng_next() {
  uint64_t *s = g_rng;
  const uint64_t result = rotl(s[1] * 5, 7) * 9;
  const uint64_t t = s[1] << 17;
  s[2] ^= s[0];
  s[3] ^= s[1];
  s[1] ^= s[2];
  s[0] ^= s[3];
  s[2] ^= t;
  s[3] = rotl(s[3], 45);
  return result;
}

inline void fnv(uint64_t &h, uint64_t v) {
  for (int i = 0; i < 8; ++i) {
    h ^= (v >> (i * 8)) & 0xff;
    h *= 0x100000001b3ULL;
  }
}

void write_trace(uint32_t decision, uint32_t choice) {
  if (g_cfg.trace_fd < 0) {
    return;
  }
  char buf[48];
  int n = 0;
  char tmp[16];
  int t = 0;
  uint32_t v = decision;
  do {
    tmp[t++] = char('0' + v % 10);
    v /= 10;
  } while (v);
  while (t) {
    buf[n++] = tmp[--t];
  }
  buf[n++] = ' ';
  v = choice;
  do {
    tmp[t++] = char('0' + v % 10);
    v /= 10;
  } while (v);
  while (t) {
    buf[n++] = tmp[--t];
  }
  buf[n++] = '\n';
  ssize_t r = write(g_cfg.trace_fd, buf, size_t(n));
  (void)r;
}

[[noreturn]] void park_forever() {
  uint32_t never = 0;
  for (;;) {
    futex(&never, FUTEX_WAIT_PRIVATE, 0);
  }
}

[[noreturn]] void abort_run(int result) {
  g_stats.result = result;
  futex_set_wake(&g_done_word, 1);
  park_forever();
}

// candidate list: current first (if runnable), then the others in ascending id
int candidates(int *out, bool self_runnable) {
  int n = 0;
  if (self_runnable && g_current >= 0) {
    out[n++] = g_current;
  }
  for (int i = 0; i < g_cfg.n_actors; ++i) {
    if (i != g_current && g_actor[i].state == ST_RUNNABLE) {
      out[n++] = i;
    }
  }
  return n;
}

// decide who runs next; records the choice.  n >= 1.
int decide(const int *cand, int n, bool self_runnable, int site_kind) {
  const uint32_t d = uint32_t(g_stats.decisions++);
  uint32_t choice = 0;
  switch (g_cfg.mode) {
  case SIM_MODE_EXPLICIT: {
    while (g_next_explicit < g_cfg.n_explicit && g_cfg.explicit_choices[g_next_explicit].decision < d) {
      ++g_next_explicit;
    }
    if (g_next_explicit < g_cfg.n_explicit && g_cfg.explicit_choices[g_next_explicit].decision == d) {
      choice = g_cfg.explicit_choices[g_next_explicit].choice % uint32_t(n);
      ++g_next_explicit;
    }
    break;
  }
  case SIM_MODE_RANDOM: {
    if (n > 1) {
      if (self_runnable) {
        if (rng_next() % 1000 < g_cfg.switch_permille) {
          choice = 1 + uint32_t(rng_next() % uint64_t(n - 1));
        }
      } else {
        choice = uint32_t(rng_next() % uint64_t(n));
      }
    }
    break;
  }
  case SIM_MODE_PCT: {
    if (self_runnable) {
      for (int i = 0; i < g_cfg.pct_depth; ++i) {
        if (g_pct_points[i] == d) {
          g_actor[g_current].prio = g_pct_next_low--;
        }
      }
    }
    int best = 0;
    for (int i = 1; i < n; ++i) {
      if (g_actor[cand[i]].prio > g_actor[cand[best]].prio) {
        best = i;
      }
    }
    choice = uint32_t(best);
    break;
  }
  default:
    break; // SERIAL: 0
  }
  if (choice != 0) {
    if (g_stats.n_choices < SIM_MAX_CHOICES) {
      g_choices[g_stats.n_choices].decision = d;
      g_choices[g_stats.n_choices].choice = choice;
    }
    ++g_stats.n_choices;
    write_trace(d, choice);
  }
  const int next = cand[choice];
  if (next != g_current) {
    ++g_stats.switches;
    fnv(g_stats.interleaving_hash, (uint64_t(uint32_t(next)) << 8) | uint64_t(uint32_t(site_kind)));
  }
  return next;
}

void hand_over(int next, bool wait_for_return) {
  const int self = g_current;
  g_current = next;
  futex_set_wake(&g_actor[next].go, 1);
  if (wait_for_return) {
    futex_wait_for(&g_actor[self].go, 1);
    __atomic_store_n(&g_actor[self].go, 0, __ATOMIC_RELAXED);
  }
}

} // namespace

extern "C" {

int sim_active(void) { return tl_actor >= 0 && g_running; }

int sim_self(void) { return tl_actor; }

uint64_t sim_step(void) { return g_stats.steps; }

void sim_log(uint32_t tag, uint64_t a, uint64_t b) {
  fnv(g_stats.event_hash, tag);
  fnv(g_stats.event_hash, a);
  fnv(g_stats.event_hash, b);
}

const SimStats *sim_stats(void) { return &g_stats; }

const SimChoice *sim_choices(void) { return g_choices; }

void sim_configure(const SimConfig *cfg) {
  g_cfg = *cfg;
  if (g_cfg.n_actors > SIM_MAX_ACTORS) {
    g_cfg.n_actors = SIM_MAX_ACTORS;
  }
  if (g_cfg.pct_depth > SIM_MAX_PCT) {
    g_cfg.pct_depth = SIM_MAX_PCT;
  }
  memset(&g_stats, 0, sizeof(g_stats));
  g_stats.event_hash = 0xcbf29ce484222325ULL;
  g_stats.interleaving_hash = 0xcbf29ce484222325ULL;
  memset(g_actor, 0, sizeof(g_actor));
  g_current = -1;
  g_done_word = 0;
  g_arrived = 0;
  g_next_explicit = 0;
  uint64_t s = g_cfg.sched_seed;
  for (int i = 0; i < 4; ++i) {
    g_rng[i] = splitmix(s);
  }
  if (g_cfg.mode == SIM_MODE_PCT) {
    // random initial priorities depth+1 .. depth+n (a permutation)
    int perm[SIM_MAX_ACTORS];
    for (int i = 0; i < g_cfg.n_actors; ++i) {
      perm[i] = i;
    }
    for (int i = g_cfg.n_actors - 1; i > 0; --i) {
      int j = int(rng_next() % uint64_t(i + 1));
      int t = perm[i];
      perm[i] = perm[j];
      perm[j] = t;
    }
    for (int i = 0; i < g_cfg.n_actors; ++i) {
      g_actor[perm[i]].prio = g_cfg.pct_depth + 1 + i;
    }
    const uint32_t horizon = g_cfg.pct_horizon ? g_cfg.pct_horizon : 64;
    for (int i = 0; i < g_cfg.pct_depth; ++i) {
      g_pct_points[i] = uint32_t(rng_next() % horizon);
    }
    g_pct_next_low = g_cfg.pct_depth;
  }
  __atomic_store_n(&g_running, 1, __ATOMIC_RELEASE);
}

void sim_actor_begin(int id) {
  tl_actor = id;
  __atomic_store_n(&g_actor[id].state, ST_RUNNABLE, __ATOMIC_RELEASE);
  __atomic_fetch_add(&g_arrived, 1, __ATOMIC_ACQ_REL);
  futex(&g_arrived, FUTEX_WAKE_PRIVATE, INT_MAX);
  futex_wait_for(&g_actor[id].go, 1);
  __atomic_store_n(&g_actor[id].go, 0, __ATOMIC_RELAXED);
}

void sim_actor_end(void) {
  const int self = tl_actor;
  g_actor[self].state = ST_DONE;
  tl_actor = -1;
  int cand[SIM_MAX_ACTORS];
  const int n = candidates(cand, false);
  if (n == 0) {
    bool all_done = true;
    for (int i = 0; i < g_cfg.n_actors; ++i) {
      if (g_actor[i].state != ST_DONE) {
        all_done = false;
      }
    }
    g_stats.result = all_done ? SIM_OK : SIM_DEADLOCK;
    futex_set_wake(&g_done_word, 1);
    return;
  }
  const int next = decide(cand, n, false, 6);
  hand_over(next, false);
}

int sim_run(void) {
  // wait until every actor is parked in sim_actor_begin, so that the first decision sees all of them
  for (;;) {
    uint32_t v = __atomic_load_n(&g_arrived, __ATOMIC_ACQUIRE);
    if (int(v) >= g_cfg.n_actors) {
      break;
    }
    futex(&g_arrived, FUTEX_WAIT_PRIVATE, v);
  }
  if (g_cfg.n_actors > 0) {
    int cand[SIM_MAX_ACTORS];
    const int n = candidates(cand, false);
    const int next = decide(cand, n, false, 5);
    g_current = next;
    futex_set_wake(&g_actor[next].go, 1);
    futex_wait_for(&g_done_word, 1);
  }
  __atomic_store_n(&g_running, 0, __ATOMIC_RELEASE);
  return g_stats.result;
}

void sim_yield(int site_kind, const void *obj) {
  (void)obj;
  if (tl_actor < 0 || !g_running) {
    return;
  }
  ++g_stats.steps;
  ++g_stats.site_count[site_kind & 15];
  fnv(g_stats.event_hash, (uint64_t(uint32_t(tl_actor)) << 8) | uint64_t(uint32_t(site_kind)));
  if (g_stats.steps > g_cfg.step_cap) {
    abort_run(SIM_STEPCAP);
  }
  if (g_cfg.site_mask != 0 && (g_cfg.site_mask & (1u << (site_kind & 15))) == 0) {
    return;
  }
  int cand[SIM_MAX_ACTORS];
  const int n = candidates(cand, true);
  if (n < 2) {
    return;
  }
  const int next = decide(cand, n, true, site_kind);
  if (next != tl_actor) {
    hand_over(next, true);
  }
}

void sim_block(const void *obj) {
  if (tl_actor < 0 || !g_running) {
    return;
  }
  const int self = tl_actor;
  ++g_stats.blocked;
  ++g_stats.steps;
  ++g_stats.site_count[9];
  fnv(g_stats.event_hash, (uint64_t(uint32_t(self)) << 8) | 9u);
  g_actor[self].state = ST_BLOCKED;
  g_actor[self].blocked_on = obj;
  int cand[SIM_MAX_ACTORS];
  const int n = candidates(cand, false);
  if (n == 0) {
    abort_run(SIM_DEADLOCK);
  }
  const int next = decide(cand, n, false, 9);
  hand_over(next, true);
}

void sim_unblock_all(const void *obj) {
  if (tl_actor < 0 || !g_running) {
    return;
  }
  for (int i = 0; i < g_cfg.n_actors; ++i) {
    if (g_actor[i].state == ST_BLOCKED && g_actor[i].blocked_on == obj) {
      g_actor[i].state = ST_RUNNABLE;
      g_actor[i].blocked_on = nullptr;
    }
  }
}

} // extern "C"
