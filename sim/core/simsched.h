// Deterministic scheduler: C interface.  The implementation (sched.cpp) is compiled WITHOUT
// -fsanitize=thread in every flavour and uses raw futex syscalls + __atomic builtins only, so
// ThreadSanitizer records no happens-before edge for a baton hand-off between actors.
#ifndef VERIF_SIMSCHED_H_
#define VERIF_SIMSCHED_H_

#include <stdint.h>

#ifdef __cplusplus
extern "C" {
#endif

enum { SIM_MAX_ACTORS = 16, SIM_MAX_CHOICES = 1 << 16, SIM_MAX_PCT = 8 };

enum { SIM_OK = 0, SIM_DEADLOCK = 1, SIM_STEPCAP = 2 };

enum { SIM_MODE_RANDOM = 0, SIM_MODE_PCT = 1, SIM_MODE_EXPLICIT = 2, SIM_MODE_SERIAL = 3 };

typedef struct SimChoice {
  uint32_t decision; // index of the scheduling decision (0-based, counts every decision)
  uint32_t choice;   // index into [current-if-runnable, others ascending]; taken modulo its length
} SimChoice;

typedef struct SimConfig {
  int n_actors;
  int mode;
  uint64_t sched_seed;       // PRNG stream for modes RANDOM / PCT
  uint32_t switch_permille;  // RANDOM: probability of leaving the running actor at a yield point
  uint32_t site_mask;        // bit k set: site kind k may switch (bit 0 unused); 0 => all
  int pct_depth;             // PCT: number of priority change points
  uint32_t pct_horizon;      // PCT: change points are drawn in [0, horizon) decisions
  uint64_t step_cap;
  const SimChoice *explicit_choices; // EXPLICIT
  uint32_t n_explicit;
  int trace_fd;              // >=0: every non-zero choice is appended as "decision choice\n" at once
} SimConfig;

typedef struct SimStats {
  uint64_t steps;          // yield points reached
  uint64_t decisions;      // scheduling decisions taken (>=2 candidates or forced)
  uint64_t switches;       // decisions that changed the running actor
  uint64_t blocked;        // times an actor parked on a held mutex
  uint64_t site_count[16]; // yield points per site kind
  uint64_t event_hash;     // FNV-1a over (actor, site kind) of every yield + everything sim_log'ed
  uint64_t interleaving_hash; // FNV-1a over (decision-relative actor, site kind) at every switch
  uint32_t n_choices;      // recorded non-zero choices
  int result;
} SimStats;

int sim_active(void);
void sim_yield(int site_kind, const void *obj);
void sim_block(const void *obj);
void sim_unblock_all(const void *obj);

void sim_configure(const SimConfig *cfg);   // main thread, before actor threads are created
void sim_actor_begin(int id);               // first call of an actor thread; parks until scheduled
void sim_actor_end(void);                   // last call of an actor thread
int sim_run(void);                          // main thread: releases the first actor, waits for the end
int sim_self(void);                         // actor id or -1
uint64_t sim_step(void);                    // global step counter (invoke/return stamps)
void sim_log(uint32_t tag, uint64_t a, uint64_t b); // fold an event into the event hash
const SimStats *sim_stats(void);
const SimChoice *sim_choices(void);         // recorded sparse choice list of the last run

#ifdef __cplusplus
}
#endif
#endif
