// Simulated file layer: link-time interposition of fopen/fopen64/read/lseek64/close in the
// harness executable.  Faults are injected only for files opened under a tracked directory;
// everything else is forwarded untouched.  Compiled without sanitizer instrumentation.
#ifndef VERIF_FILELAYER_H_
#define VERIF_FILELAYER_H_
#include <stdint.h>
#ifdef __cplusplus
extern "C" {
#endif

typedef struct FlStats {
  uint64_t opens, open_fail, reads, short_reads, eintr, bytes, seeks;
} FlStats;

void fl_reset(void);                      // forget tracked prefix, plans, stats
void fl_track_prefix(const char *dir);    // files whose path starts with dir are simulated
// per-read fault pattern, consumed one entry per read() on a tracked fd, then "no fault":
//   0 = deliver normally, n>0 = deliver at most n bytes (short read), -1 = fail once with EINTR
void fl_set_read_plan(const int *plan, int n);
void fl_fail_open(const char *path);      // fopen(path) fails with ENOENT (up to 8 paths)
void fl_clear_faults(void);               // drop read plan and failing paths, keep prefix and stats
const FlStats *fl_stats(void);

#ifdef __cplusplus
}
#endif
#endif
