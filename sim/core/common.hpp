// Shared, ChaiScript-free utilities: PRNG streams, a small JSON value (own reader/writer — the
// code under test must not be in the replay path), run results, the world registry.
#ifndef VERIF_COMMON_HPP_
#define VERIF_COMMON_HPP_

#include <cstdint>
#include <cstdio>
#include <cstdlib>
#include <cstring>
#include <map>
#include <memory>
#include <stdexcept>
#include <string>
#include <utility>
#include <vector>

namespace verif {

  // ---------------------------------------------------------------- PRNG
  inline uint64_t splitmix64(uint64_t &s) {
    uint64_t z = (s += 0x9e3779b97f4a7c15ULL);
    z = (z ^ (z >> 30)) * 0xbf58476d1ce4e5b9ULL;
    z = (z ^ (z >> 27)) * 0x94d049bb133111ebULL;
    return z ^ (z >> 31);
  }

  inline uint64_t mix(uint64_t a, uint64_t b, uint64_t c = 0) {
    uint64_t s = a ^ (b * 0x9e3779b97f4a7c15ULL) ^ (c * 0xc2b2ae3d27d4eb4fULL);
    splitmix64(s);
    uint64_t r = splitmix64(s);
    return r ? r : 1;
  }

  inline uint64_t fnv1a(const std::string &s, uint64_t h = 0xcbf29ce484222325ULL) {
    for (unsigned char c : s) {
      h ^= c;
      h *= 0x100000001b3ULL;
    }
    return h;
  }

  struct Rng {
    uint64_t s[4];
    explicit Rng(uint64_t seed) {
      uint64_t x = seed;
      for (auto &v : s) {
        v = splitmix64(x);
      }
    }
    static uint64_t rotl(uint64_t x, int k) { return (x << k) | (x >> (64 - k)); }
    uint64_t next() {
      const uint64_t result = rotl(s[1] * 5, 7) * 9;
      const uint64_t t = s[1] << 17;
      s[2] ^= s[0];
      s[3] ^= s[1];
      s[1] ^= s[2];
      s[0] ^= s[3];
      s[2] ^= t;
      s[3] = rotl(s[3], 45);
      return result;
    }
    // uniform in [0, n)
    uint64_t below(uint64_t n) { return n ? next() % n : 0; }
    // uniform in [lo, hi]
    int64_t range(int64_t lo, int64_t hi) { return lo + int64_t(below(uint64_t(hi - lo + 1))); }
    bool chance(unsigned permille) { return below(1000) < permille; }
    template<typename T>
    const T &pick(const std::vector<T> &v) {
      return v[size_t(below(v.size()))];
    }
  };

  // ---------------------------------------------------------------- JSON
  class J {
  public:
    enum Kind { Null, Bool, Int, Str, Arr, Obj };
    Kind kind = Null;
    bool b = false;
    int64_t i = 0;
    std::string s;
    std::vector<J> a;
    std::vector<std::pair<std::string, J>> o;

    J() = default;
    J(bool v) : kind(Bool), b(v) {}
    J(int v) : kind(Int), i(v) {}
    J(unsigned v) : kind(Int), i(int64_t(v)) {}
    J(long v) : kind(Int), i(v) {}
    J(long long v) : kind(Int), i(v) {}
    J(unsigned long v) : kind(Int), i(int64_t(v)) {}
    J(unsigned long long v) : kind(Int), i(int64_t(v)) {}
    J(const char *v) : kind(Str), s(v) {}
    J(std::string v) : kind(Str), s(std::move(v)) {}
    static J array() {
      J j;
      j.kind = Arr;
      return j;
    }
    static J object() {
      J j;
      j.kind = Obj;
      return j;
    }

    bool is_null() const { return kind == Null; }
    J &push(J v) {
      if (kind == Null) {
        kind = Arr;
      }
      a.push_back(std::move(v));
      return a.back();
    }
    J &operator[](const std::string &k) {
      if (kind == Null) {
        kind = Obj;
      }
      for (auto &p : o) {
        if (p.first == k) {
          return p.second;
        }
      }
      if (o.empty()) {
        o.reserve(48); // references returned earlier stay valid while further keys are added (plans have < 48 keys)
      }
      o.emplace_back(k, J());
      return o.back().second;
    }
    const J &at(const std::string &k) const {
      static const J nul;
      for (auto &p : o) {
        if (p.first == k) {
          return p.second;
        }
      }
      return nul;
    }
    bool has(const std::string &k) const {
      for (auto &p : o) {
        if (p.first == k) {
          return true;
        }
      }
      return false;
    }
    const J &operator[](size_t idx) const { return a[idx]; }
    J &operator[](size_t idx) { return a[idx]; }
    size_t size() const { return kind == Arr ? a.size() : o.size(); }
    int64_t num(int64_t dflt = 0) const { return kind == Int ? i : (kind == Bool ? int64_t(b) : dflt); }
    uint64_t unum(uint64_t dflt = 0) const { return kind == Int ? uint64_t(i) : dflt; }
    const std::string &str() const { return s; }
    bool truthy() const { return kind == Bool ? b : (kind == Int ? i != 0 : (kind != Null)); }

    static void esc(const std::string &in, std::string &out) {
      out += '"';
      for (unsigned char c : in) {
        switch (c) {
        case '"': out += "\\\""; break;
        case '\\': out += "\\\\"; break;
        case '\n': out += "\\n"; break;
        case '\r': out += "\\r"; break;
        case '\t': out += "\\t"; break;
        default:
          if (c < 0x20 || c >= 0x7f) {
            char buf[8];
            snprintf(buf, sizeof(buf), "\\u%04x", c); // bytes are kept one per escape (latin-1 style), reader mirrors this
            out += buf;
          } else {
            out += char(c);
          }
        }
      }
      out += '"';
    }

    void dump(std::string &out) const {
      switch (kind) {
      case Null: out += "null"; break;
      case Bool: out += b ? "true" : "false"; break;
      case Int: out += std::to_string(i); break;
      case Str: esc(s, out); break;
      case Arr: {
        out += '[';
        bool first = true;
        for (auto &v : a) {
          if (!first) {
            out += ',';
          }
          first = false;
          v.dump(out);
        }
        out += ']';
        break;
      }
      case Obj: {
        out += '{';
        bool first = true;
        for (auto &p : o) {
          if (!first) {
            out += ',';
          }
          first = false;
          esc(p.first, out);
          out += ':';
          p.second.dump(out);
        }
        out += '}';
        break;
      }
      }
    }
    std::string dump() const {
      std::string out;
      dump(out);
      return out;
    }

    // ---- reader
    struct Reader {
      const std::string &t;
      size_t p = 0;
      explicit Reader(const std::string &text) : t(text) {}
      void ws() {
        while (p < t.size() && (t[p] == ' ' || t[p] == '\n' || t[p] == '\r' || t[p] == '\t')) {
          ++p;
        }
      }
      [[noreturn]] void fail(const char *m) { throw std::runtime_error(std::string("json: ") + m + " at " + std::to_string(p)); }
      J value() {
        ws();
        if (p >= t.size()) {
          fail("eof");
        }
        char c = t[p];
        if (c == '{') {
          ++p;
          J j = J::object();
          ws();
          if (p < t.size() && t[p] == '}') {
            ++p;
            return j;
          }
          for (;;) {
            ws();
            J k = value();
            if (k.kind != Str) {
              fail("key");
            }
            ws();
            if (p >= t.size() || t[p] != ':') {
              fail("colon");
            }
            ++p;
            J v = value();
            j.o.emplace_back(k.s, std::move(v));
            ws();
            if (p < t.size() && t[p] == ',') {
              ++p;
              continue;
            }
            if (p < t.size() && t[p] == '}') {
              ++p;
              return j;
            }
            fail("object");
          }
        }
        if (c == '[') {
          ++p;
          J j = J::array();
          ws();
          if (p < t.size() && t[p] == ']') {
            ++p;
            return j;
          }
          for (;;) {
            j.a.push_back(value());
            ws();
            if (p < t.size() && t[p] == ',') {
              ++p;
              continue;
            }
            if (p < t.size() && t[p] == ']') {
              ++p;
              return j;
            }
            fail("array");
          }
        }
        if (c == '"') {
          ++p;
          std::string out;
          while (p < t.size() && t[p] != '"') {
            if (t[p] == '\\') {
              ++p;
              if (p >= t.size()) {
                fail("escape");
              }
              switch (t[p]) {
              case 'n': out += '\n'; break;
              case 'r': out += '\r'; break;
              case 't': out += '\t'; break;
              case 'b': out += '\b'; break;
              case 'f': out += '\f'; break;
              case '/': out += '/'; break;
              case 'u': {
                if (p + 4 >= t.size()) {
                  fail("u-escape");
                }
                unsigned v = unsigned(strtoul(t.substr(p + 1, 4).c_str(), nullptr, 16));
                out += char(v & 0xff);
                p += 4;
                break;
              }
              default: out += t[p];
              }
              ++p;
            } else {
              out += t[p++];
            }
          }
          if (p >= t.size()) {
            fail("string");
          }
          ++p;
          return J(out);
        }
        if (t.compare(p, 4, "true") == 0) {
          p += 4;
          return J(true);
        }
        if (t.compare(p, 5, "false") == 0) {
          p += 5;
          return J(false);
        }
        if (t.compare(p, 4, "null") == 0) {
          p += 4;
          return J();
        }
        size_t q = p;
        if (q < t.size() && (t[q] == '-' || t[q] == '+')) {
          ++q;
        }
        while (q < t.size() && t[q] >= '0' && t[q] <= '9') {
          ++q;
        }
        if (q == p) {
          fail("value");
        }
        // plans only contain integers; a fraction/exponent is read and truncated
        std::string numtxt = t.substr(p, q - p);
        bool neg = numtxt[0] == '-';
        uint64_t mag = strtoull(numtxt.c_str() + ((numtxt[0] == '-' || numtxt[0] == '+') ? 1 : 0), nullptr, 10);
        while (q < t.size() && (t[q] == '.' || t[q] == 'e' || t[q] == 'E' || t[q] == '-' || t[q] == '+' || (t[q] >= '0' && t[q] <= '9'))) {
          ++q;
        }
        p = q;
        J j;
        j.kind = Int;
        j.i = neg ? -int64_t(mag) : int64_t(mag);
        return j;
      }
    };
    static J parse(const std::string &text) {
      Reader r(text);
      J v = r.value();
      return v;
    }
  };

  inline std::string read_file(const std::string &path) {
    FILE *f = fopen(path.c_str(), "rb");
    if (!f) {
      throw std::runtime_error("cannot open " + path);
    }
    std::string out;
    char buf[65536];
    size_t n;
    while ((n = fread(buf, 1, sizeof(buf), f)) > 0) {
      out.append(buf, n);
    }
    fclose(f);
    return out;
  }

  inline void write_file(const std::string &path, const std::string &data) {
    FILE *f = fopen(path.c_str(), "wb");
    if (!f) {
      throw std::runtime_error("cannot write " + path);
    }
    fwrite(data.data(), 1, data.size(), f);
    fclose(f);
  }

  // ---------------------------------------------------------------- run result
  struct RunResult {
    bool violation = false;
    std::string rule;    // oracle rule that fired (violation class)
    std::string detail;  // human-readable
    uint64_t event_hash = 0;
    uint64_t distinct_key = 0; // hash of (plan shape, interleaving / crash point) for distinct counting
    bool nontrivial = false;
    std::map<std::string, int64_t> counters; // fault kinds fired, probes, steps ...
    uint64_t evals = 1;                      // individual executions performed by this run (crash-point enumerations run many)
    uint64_t distinct_extra = 0;             // further distinct non-trivial cases inside this run (beyond distinct_key)
    J plan_patch;                            // keys merged into the candidate plan (e.g. the single failing crash point)
    J recorded_sched;                        // explicit schedule equivalent to what just ran (multi-actor worlds)
    void fail(const std::string &r, const std::string &d) {
      if (!violation) {
        violation = true;
        rule = r;
        detail = d;
      }
    }
  };

  // A run that ends in DEADLOCK / STEPCAP leaves actor threads parked inside the engine for ever:
  // nothing may be destroyed or unwound any more.  run_actors() then calls this handler (installed
  // by the runner around every execute) which reports the result and _exit()s; it never returns.
  using FatalHandler = void (*)(RunResult &);
  FatalHandler &fatal_handler();

  // ---------------------------------------------------------------- world registry
  struct World {
    virtual ~World() = default;
    virtual const char *id() const = 0;
    // plan for run `run_seed`; tier is "quick" or "thorough".  Must be a pure function of its arguments.
    virtual J generate(uint64_t run_seed, const std::string &tier) = 0;
    // execute a plan (including plan["sched"]); must be a pure function of the plan and the code under test.
    virtual RunResult execute(const J &plan) = 0;
    // enumerated (non-random) cases run completely in both tiers; default none
    virtual size_t fixed_cases() { return 0; }
    virtual J fixed_case(size_t) { return J(); }
    // world-specific static description for the evidence file
    virtual J describe() { return J::object(); }
  };

  std::map<std::string, World *> &world_registry();

  struct RegisterWorld {
    explicit RegisterWorld(World *w) { world_registry()[w->id()] = w; }
  };

} // namespace verif

#endif
