// simrun: executes simulated runs of one world.
//
//   simrun --world C13 --seed S --start I --count N [--budget-s T] [--tier quick|thorough]
//          [--out-dir D] [--recheck-every K] [--samples M] [--fixed]
//   simrun --replay file.json            exit 0 = property held, 1 = violation, 2 = machinery problem
//   simrun --world C13 --gen S I [--tier T]   print the plan of run index I (no execution)
//
// Output protocol (one line each, flushed at once, so a dead worker names its last run):
//   BEGIN <idx> <run_seed>
//   END <idx> <run_seed> <event_hash> <ok|VIOL> <nontrivial 0/1> <distinct_key> <rule-or--> <evals> <distinct_extra>
//   CAND <path>                 plan (with the recorded explicit schedule) of a violating run
//   NONDET <idx> <run_seed> ... same plan executed twice gave different hashes  (exit 2)
//   SAMPLE <json>               a plan that was executed (for the evidence file)
//   SUMMARY <json>              counters summed over the runs of this process
#include "common.hpp"
#include "simsched.h"

#include <chrono>
#include <csignal>
#include <unistd.h>

namespace verif {
  std::map<std::string, World *> &world_registry() {
    static std::map<std::string, World *> r;
    return r;
  }
  FatalHandler &fatal_handler() {
    static FatalHandler h = nullptr;
    return h;
  }
} // namespace verif

using namespace verif;

// sanitizer runtime options: must be non-inline, exported
extern "C" __attribute__((used, visibility("default"))) const char *__asan_default_options() {
  return "exitcode=77:detect_leaks=0:detect_stack_use_after_return=1:abort_on_error=0:allocator_may_return_null=1:handle_abort=1";
}
extern "C" __attribute__((used, visibility("default"))) const char *__ubsan_default_options() {
  return "halt_on_error=1:exitcode=78:print_stacktrace=1";
}
extern "C" __attribute__((used, visibility("default"))) const char *__tsan_default_options() {
  return "halt_on_error=1:exitcode=66:second_deadlock_stack=1:report_signal_unsafe=0:history_size=4";
}

static double now_s() {
  using namespace std::chrono;
  return duration<double>(steady_clock::now().time_since_epoch()).count();
}

static std::string one_line(std::string s) {
  for (size_t i = 0; i < s.size(); ++i) {
    if (s[i] == '\n' || s[i] == '\r') {
      s[i] = ' ';
    }
  }
  return s;
}

static std::string hex(uint64_t v) {
  char buf[32];
  snprintf(buf, sizeof(buf), "%016llx", static_cast<unsigned long long>(v));
  return buf;
}

static void terminate_handler() {
  // an exception escaped the harness: report and die with a recognisable code
  fprintf(stdout, "TERMINATE uncaught exception in harness\n");
  fflush(stdout);
  _exit(70);
}

// context of the run in flight, for the fatal handler
static const J *g_cur_plan = nullptr;
static std::string g_cur_out_dir, g_cur_world;
static bool g_cur_fixed = false, g_cur_replay = false;
static unsigned long long g_cur_idx = 0;

static void on_fatal(RunResult &r) {
  const unsigned long long rs = g_cur_plan ? g_cur_plan->at("run_seed").unum() : 0;
  if (g_cur_replay) {
    printf("RESULT VIOL %s %s\n", "0000000000000000", r.rule.c_str());
    printf("DETAIL %s\n", r.detail.c_str());
    fflush(stdout);
    _exit(1);
  }
  printf("END %llu %llu %016llx VIOL 1 %016llx %s 1 0\n", g_cur_idx, rs, static_cast<unsigned long long>(r.event_hash), static_cast<unsigned long long>(r.event_hash), r.rule.c_str());
  printf("DETAIL %s\n", r.detail.c_str());
  if (g_cur_plan) {
    J cand = *g_cur_plan;
    cand["expect"]["rule"] = J(r.rule);
    cand["expect"]["detail"] = J(r.detail);
    const std::string path = g_cur_out_dir + "/cand-" + g_cur_world + "-" + (g_cur_fixed ? "fixed-" : "") + std::to_string(rs) + ".json";
    write_file(path, cand.dump() + "\n");
    printf("CAND %s\n", path.c_str());
  }
  fflush(stdout);
  _exit(3);
}

static int do_replay(const std::string &path) {
  J plan = J::parse(read_file(path));
  auto &reg = world_registry();
  auto it = reg.find(plan.at("world").str());
  if (it == reg.end()) {
    fprintf(stdout, "ERROR unknown world %s\n", plan.at("world").str().c_str());
    return 2;
  }
  printf("BEGIN 0 %llu\n", static_cast<unsigned long long>(plan.at("run_seed").unum()));
  fflush(stdout);
  g_cur_plan = &plan;
  g_cur_replay = true;
  fatal_handler() = on_fatal;
  RunResult r = it->second->execute(plan);
  printf("RESULT %s %s %s\n", r.violation ? "VIOL" : "ok", hex(r.event_hash).c_str(), r.violation ? r.rule.c_str() : "-");
  if (r.violation) {
    printf("DETAIL %s\n", one_line(r.detail).c_str());
  }
  J c = J::object();
  for (auto &kv : r.counters) {
    c[kv.first] = J(static_cast<long long>(kv.second));
  }
  printf("COUNTERS %s\n", c.dump().c_str());
  fflush(stdout);
  return r.violation ? 1 : 0;
}

int main(int argc, char **argv) {
  std::set_terminate(terminate_handler);
  std::string world, tier = "quick", out_dir = ".", replay;
  uint64_t seed = 1, start = 0, count = 1;
  double budget = 0;
  uint64_t recheck_every = 0, samples = 0;
  bool gen_only = false, fixed = false;
  for (int i = 1; i < argc; ++i) {
    std::string a = argv[i];
    auto next = [&]() -> std::string {
      if (i + 1 >= argc) {
        fprintf(stderr, "missing value for %s\n", a.c_str());
        exit(2);
      }
      return argv[++i];
    };
    if (a == "--world") {
      world = next();
    } else if (a == "--seed") {
      seed = strtoull(next().c_str(), nullptr, 10);
    } else if (a == "--start") {
      start = strtoull(next().c_str(), nullptr, 10);
    } else if (a == "--count") {
      count = strtoull(next().c_str(), nullptr, 10);
    } else if (a == "--budget-s") {
      budget = atof(next().c_str());
    } else if (a == "--tier") {
      tier = next();
    } else if (a == "--out-dir") {
      out_dir = next();
    } else if (a == "--recheck-every") {
      recheck_every = strtoull(next().c_str(), nullptr, 10);
    } else if (a == "--samples") {
      samples = strtoull(next().c_str(), nullptr, 10);
    } else if (a == "--replay") {
      replay = next();
    } else if (a == "--gen") {
      gen_only = true;
      seed = strtoull(next().c_str(), nullptr, 10);
      start = strtoull(next().c_str(), nullptr, 10);
    } else if (a == "--fixed") {
      fixed = true;
    } else if (a == "--list") {
      for (auto &kv : world_registry()) {
        printf("%s\n", kv.first.c_str());
      }
      return 0;
    } else {
      fprintf(stderr, "unknown argument %s\n", a.c_str());
      return 2;
    }
  }

  try {
    if (!replay.empty()) {
      return do_replay(replay);
    }

    auto &reg = world_registry();
    auto it = reg.find(world);
    if (it == reg.end()) {
      fprintf(stderr, "unknown world '%s'\n", world.c_str());
      return 2;
    }
    World *w = it->second;
    const uint64_t wtag = fnv1a(world);

    auto plan_for = [&](uint64_t idx) -> J {
      J plan;
      if (fixed) {
        plan = w->fixed_case(size_t(idx));
        plan["world"] = J(world);
        plan["run_seed"] = J(static_cast<unsigned long long>(idx));
        plan["fixed_index"] = J(static_cast<unsigned long long>(idx));
      } else {
        const uint64_t run_seed = mix(seed, wtag, idx) >> 1;
        plan = w->generate(run_seed, tier);
        plan["world"] = J(world);
        plan["run_seed"] = J(static_cast<unsigned long long>(run_seed));
        plan["index"] = J(static_cast<unsigned long long>(idx));
      }
      plan["tier"] = J(tier);
      return plan;
    };

    if (gen_only) {
      printf("%s\n", plan_for(start).dump().c_str());
      return 0;
    }

    if (fixed) {
      const uint64_t n = w->fixed_cases();
      if (start >= n) {
        count = 0;
      } else if (start + count > n) {
        count = n - start;
      }
      printf("FIXED %llu\n", static_cast<unsigned long long>(n));
    }

    std::map<std::string, int64_t> total;
    uint64_t done = 0, viol = 0;
    const double t0 = now_s();
    int rc = 0;
    for (uint64_t k = 0; k < count; ++k) {
      if (budget > 0 && now_s() - t0 > budget) {
        break;
      }
      const uint64_t idx = start + k;
      J plan = plan_for(idx);
      const unsigned long long rs = plan.at("run_seed").unum();
      printf("BEGIN %llu %llu\n", static_cast<unsigned long long>(idx), rs);
      fflush(stdout);
      g_cur_plan = &plan;
      g_cur_out_dir = out_dir;
      g_cur_world = world;
      g_cur_fixed = fixed;
      g_cur_idx = idx;
      fatal_handler() = on_fatal;
      RunResult r = w->execute(plan);
      ++done;
      for (auto &kv : r.counters) {
        total[kv.first] += kv.second;
      }
      printf("END %llu %llu %s %s %d %s %s %llu %llu\n",
             static_cast<unsigned long long>(idx),
             rs,
             hex(r.event_hash).c_str(),
             r.violation ? "VIOL" : "ok",
             r.nontrivial ? 1 : 0,
             hex(r.distinct_key).c_str(),
             r.violation ? r.rule.c_str() : "-",
             static_cast<unsigned long long>(r.evals),
             static_cast<unsigned long long>(r.distinct_extra));
      fflush(stdout);
      if (k < samples) {
        printf("SAMPLE %s\n", plan.dump().c_str());
        fflush(stdout);
      }
      const bool recheck = r.violation || (recheck_every && (idx % recheck_every) == 0);
      if (recheck) {
        RunResult r2 = w->execute(plan);
        total["rechecked"] += 1;
        if (r.violation && (r2.event_hash != r.event_hash || r2.violation != r.violation || r2.rule != r.rule)) {
          // a violating run that behaves differently when executed again in the same process: the code under
          // test may keep state across engines (itself a defect); the fresh-process replays of the gate decide
          printf("NOTE in-process re-execution of violating run %llu differs (%s / %s)\n", rs, r.rule.c_str(), r2.violation ? r2.rule.c_str() : "ok");
          fflush(stdout);
        } else if (r2.event_hash != r.event_hash || r2.violation != r.violation || r2.rule != r.rule) {
          printf("NONDET %llu %llu %s %s %s %s\n",
                 static_cast<unsigned long long>(idx),
                 rs,
                 hex(r.event_hash).c_str(),
                 hex(r2.event_hash).c_str(),
                 r.rule.c_str(),
                 r2.rule.c_str());
          fflush(stdout);
          rc = 2;
          break;
        }
      }
      if (r.violation) {
        ++viol;
        printf("DETAIL %s\n", one_line(r.detail).c_str());
        J cand = plan;
        J &ex = cand["expect"];
        ex["rule"] = J(r.rule);
        ex["detail"] = J(r.detail);
        ex["event_hash"] = J(hex(r.event_hash));
        if (!r.recorded_sched.is_null()) {
          cand["sched_recorded"] = r.recorded_sched;
        }
        for (auto &kv : r.plan_patch.o) {
          cand[kv.first] = kv.second;
        }
        const std::string path = out_dir + "/cand-" + world + "-" + (fixed ? "fixed-" : "") + std::to_string(rs) + ".json";
        write_file(path, cand.dump() + "\n");
        printf("CAND %s\n", path.c_str());
        fflush(stdout);
      }
    }
    J s = J::object();
    s["runs"] = J(static_cast<unsigned long long>(done));
    s["violations"] = J(static_cast<unsigned long long>(viol));
    s["wall_s_x1000"] = J(static_cast<long long>((now_s() - t0) * 1000));
    J &c = s["counters"];
    c = J::object();
    for (auto &kv : total) {
      c[kv.first] = J(static_cast<long long>(kv.second));
    }
    printf("SUMMARY %s\n", s.dump().c_str());
    fflush(stdout);
    return rc;
  } catch (const std::exception &e) {
    printf("ERROR harness exception: %s\n", e.what());
    fflush(stdout);
    return 2;
  }
}
