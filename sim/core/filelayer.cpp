#include "filelayer.h"
#include "simsched.h"

#include <dlfcn.h>
#include <errno.h>
#include <stdio.h>
#include <string.h>
#include <sys/syscall.h>
#include <unistd.h>

namespace {
  char g_prefix[512];
  size_t g_prefix_len = 0;
  bool g_tracked[1024];
  int g_plan[64];
  int g_plan_n = 0, g_plan_pos = 0;
  char g_fail[8][512];
  int g_fail_n = 0;
  FlStats g_st;

  typedef FILE *(*fopen_t)(const char *, const char *);
  fopen_t real_fopen(const char *name) {
    return reinterpret_cast<fopen_t>(dlsym(RTLD_NEXT, name));
  }

  bool tracked_path(const char *p) { return g_prefix_len != 0 && p && strncmp(p, g_prefix, g_prefix_len) == 0; }

  FILE *do_fopen(const char *sym, const char *path, const char *mode) {
    static fopen_t f32 = real_fopen("fopen");
    static fopen_t f64 = real_fopen("fopen64");
    fopen_t f = (strcmp(sym, "fopen64") == 0 && f64) ? f64 : f32;
    if (tracked_path(path)) {
      sim_yield(8, nullptr);
      ++g_st.opens;
      for (int i = 0; i < g_fail_n; ++i) {
        if (strcmp(g_fail[i], path) == 0) {
          ++g_st.open_fail;
          errno = ENOENT;
          return nullptr;
        }
      }
      FILE *fp = f(path, mode);
      if (fp) {
        int fd = fileno(fp);
        if (fd >= 0 && fd < 1024) {
          g_tracked[fd] = true;
        }
      }
      return fp;
    }
    FILE *fp = f(path, mode);
    if (fp) {
      int fd = fileno(fp);
      if (fd >= 0 && fd < 1024) {
        g_tracked[fd] = false; // fd numbers are reused; fclose() does not pass through close()
      }
    }
    return fp;
  }
} // namespace

extern "C" {

void fl_reset(void) {
  g_prefix_len = 0;
  g_prefix[0] = 0;
  memset(g_tracked, 0, sizeof(g_tracked));
  g_plan_n = g_plan_pos = 0;
  g_fail_n = 0;
  memset(&g_st, 0, sizeof(g_st));
}

void fl_track_prefix(const char *dir) {
  strncpy(g_prefix, dir, sizeof(g_prefix) - 1);
  g_prefix[sizeof(g_prefix) - 1] = 0;
  g_prefix_len = strlen(g_prefix);
}

void fl_set_read_plan(const int *plan, int n) {
  if (n > 64) {
    n = 64;
  }
  for (int i = 0; i < n; ++i) {
    g_plan[i] = plan[i];
  }
  g_plan_n = n;
  g_plan_pos = 0;
}

void fl_fail_open(const char *path) {
  if (g_fail_n < 8) {
    strncpy(g_fail[g_fail_n], path, 511);
    g_fail[g_fail_n][511] = 0;
    ++g_fail_n;
  }
}

void fl_clear_faults(void) {
  g_plan_n = g_plan_pos = 0;
  g_fail_n = 0;
}

const FlStats *fl_stats(void) { return &g_st; }

__attribute__((visibility("default"))) FILE *fopen(const char *path, const char *mode) { return do_fopen("fopen", path, mode); }
__attribute__((visibility("default"))) FILE *fopen64(const char *path, const char *mode) { return do_fopen("fopen64", path, mode); }

__attribute__((visibility("default"))) ssize_t read(int fd, void *buf, size_t count) {
  if (fd >= 0 && fd < 1024 && g_tracked[fd]) {
    sim_yield(8, nullptr);
    ++g_st.reads;
    if (g_plan_pos < g_plan_n) {
      int f = g_plan[g_plan_pos++];
      if (f < 0) {
        ++g_st.eintr;
        errno = EINTR;
        return -1;
      }
      if (f > 0 && size_t(f) < count) {
        count = size_t(f);
        ++g_st.short_reads;
      }
    }
    ssize_t r = syscall(SYS_read, fd, buf, count);
    if (r > 0) {
      g_st.bytes += uint64_t(r);
    }
    return r;
  }
  return syscall(SYS_read, fd, buf, count);
}

__attribute__((visibility("default"))) int close(int fd) {
  if (fd >= 0 && fd < 1024) {
    g_tracked[fd] = false;
  }
  return int(syscall(SYS_close, fd));
}

} // extern "C"
