// probe 'script' 'script' ... : evaluates each argument on one engine, prints value or exception.
// An argument starting with '@' toggles: @nohints / @hints (H2), @shape (print H3 stack shape), @new (fresh engine)
#include "simworld.hpp"
namespace verif {
  std::map<std::string, World *> &world_registry() {
    static std::map<std::string, World *> r;
    return r;
  }
  FatalHandler &fatal_handler() {
    static FatalHandler h = nullptr;
    return h;
  }
}
int main(int argc, char **argv) {
  using namespace verif;
  auto e = make_engine({run_dir() + "/"});
  static std::vector<int> trace;
  auto reg = [&]() {
    e->add(chaiscript::fun([](int n) { trace.push_back(n); }), "t");
    e->add(chaiscript::fun([](int k) -> int {
             if (k == 1) throw std::runtime_error("cb-runtime");
             if (k == 2) throw std::out_of_range("cb-oor");
             if (k == 3) throw std::logic_error("cb-logic");
             if (k == 4) throw 42;
             return k;
           }),
           "cb");
  };
  reg();
  for (int i = 1; i < argc; ++i) {
    std::string a = argv[i];
    if (a == "@nohints") { chaiscript::detail::verif_ignore_lookup_hints() = true; continue; }
    if (a == "@hints") { chaiscript::detail::verif_ignore_lookup_hints() = false; continue; }
    if (a == "@new") { e = make_engine({run_dir() + "/"}); reg(); continue; }
    if (a == "@shape") {
      auto s = e->verif_stack_shape();
      printf("shape stacks=%zu scopes=%zu cp=%zu cpb=%zu depth=%d en=%d saves=%zu\n", s.stacks, s.scopes_in_top_stack, s.call_params, s.call_params_back, s.call_depth, int(s.saves_enabled), s.saves);
      continue;
    }
    trace.clear();
    std::string r = eval_show(*e, a);
    printf("%s\n   -> %s", a.c_str(), r.c_str());
    if (!trace.empty()) {
      printf("   trace:");
      for (int t : trace) printf(" %d", t);
    }
    printf("\n");
  }
}
