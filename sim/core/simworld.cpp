#include "simworld.hpp"

#include <chaiscript_parser.hpp> // /repo/static_libs
#include <chaiscript_stdlib.hpp>

#include <sys/stat.h>
#include <thread>
#include <typeinfo>
#include <unistd.h>

namespace verif {

  static std::vector<chaiscript::Options> engine_options() {
    return {chaiscript::Options::No_Load_Modules, chaiscript::Options::External_Scripts};
  }

  std::unique_ptr<Engine> make_engine(std::vector<std::string> use_paths) {
    return std::make_unique<Engine>(create_chaiscript_stdlib(), create_chaiscript_parser(), std::vector<std::string>{}, std::move(use_paths), engine_options());
  }

  Engine *make_engine_at(void *where, std::vector<std::string> use_paths) {
    return new (where) Engine(create_chaiscript_stdlib(), create_chaiscript_parser(), std::vector<std::string>{}, std::move(use_paths), engine_options());
  }

  size_t engine_size() { return sizeof(Engine); }

  chaiscript::ModulePtr make_stdlib_module() { return create_chaiscript_stdlib(); }

  Engine *make_engine_from_module_at(void *where, const chaiscript::ModulePtr &lib, std::vector<std::string> use_paths) {
    if (where) {
      return new (where) Engine(lib, create_chaiscript_parser(), std::vector<std::string>{}, std::move(use_paths), engine_options());
    }
    return new Engine(lib, create_chaiscript_parser(), std::vector<std::string>{}, std::move(use_paths), engine_options());
  }

  void warm_up() {
    static bool done = false;
    if (done) {
      return;
    }
    done = true;
    auto e = make_engine();
    // touches: void_var, const_var(bool), Name_Validator, type-info singletons, numeric paths,
    // string/vector/map bootstrap paths, exception paths, conversion paths
    const char *scripts[] = {
        "var a = 1; var b = 2.5; var s = \"x\"; var v = [1,2,3]; var m = [\"a\":1]; a + b; s + s; v.size(); m.size(); true && false;",
        "def wf(x) { if (x > 0) { return wf(x-1) } else { return 0 } }; wf(3);",
        "class WK { var v; def WK(x) { this.v = x }; def get() { this.v } }; WK(3).get();",
        "try { throw(1) } catch (e) { }; try { undefined_fn_xyz() } catch (e) { };",
        "for (var i = 0; i < 3; ++i) { }; for (x : [1,2]) { }; var l = fun(x) { x }; l(1); to_string(1); \"${1}\";",
    };
    for (auto s : scripts) {
      try {
        e->eval(s);
      } catch (...) {
      }
    }
    (void)e->get_state();
    (void)e->get_locals();
  }

  std::string show(const Boxed_Value &bv, Engine *e, int depth) {
    using namespace chaiscript;
    if (depth > 6) {
      return "...";
    }
    try {
      if (bv.is_undef()) {
        return "undef";
      }
      const Type_Info &ti = bv.get_type_info();
      if (ti.bare_equal(user_type<void>())) {
        return "void";
      }
      if (ti.bare_equal(user_type<bool>())) {
        return boxed_cast<bool>(bv) ? "true" : "false";
      }
      if (ti.is_arithmetic()) {
        return std::string(ti.bare_name()) + ":" + Boxed_Number(bv).to_string();
      }
      if (ti.bare_equal(user_type<std::string>())) {
        return "s:" + boxed_cast<const std::string &>(bv);
      }
      if (ti.bare_equal(user_type<std::vector<Boxed_Value>>())) {
        const auto &v = boxed_cast<const std::vector<Boxed_Value> &>(bv);
        std::string out = "[";
        for (size_t i = 0; i < v.size(); ++i) {
          if (i) {
            out += ",";
          }
          out += show(v[i], e, depth + 1);
        }
        return out + "]";
      }
      if (ti.bare_equal(user_type<std::map<std::string, Boxed_Value>>())) {
        const auto &m = boxed_cast<const std::map<std::string, Boxed_Value> &>(bv);
        std::string out = "{";
        bool first = true;
        for (auto &kv : m) {
          if (!first) {
            out += ",";
          }
          first = false;
          out += kv.first + ":" + show(kv.second, e, depth + 1);
        }
        return out + "}";
      }
      if (ti.bare_equal(user_type<exception::eval_error>())) {
        return "eval_error:" + boxed_cast<const exception::eval_error &>(bv).reason;
      }
      if (ti.bare_equal(user_type<dispatch::Dynamic_Object>())) {
        const auto &d = boxed_cast<const dispatch::Dynamic_Object &>(bv);
        std::string out = "obj:" + d.get_type_name() + "{";
        bool first = true;
        for (auto &kv : d.get_attrs()) {
          if (!first) {
            out += ",";
          }
          first = false;
          out += kv.first + ":" + show(kv.second, e, depth + 1);
        }
        return out + "}";
      }
      if (e) {
        try {
          const std::exception &ex = e->boxed_cast<const std::exception &>(bv);
          return std::string("exc:") + typeid(ex).name() + ":" + ex.what();
        } catch (const exception::bad_boxed_cast &) {
        }
      }
      return std::string("T:") + ti.bare_name();
    } catch (const std::exception &ex) {
      return std::string("show-failed:") + ex.what();
    }
  }

  std::string describe_current_exception(Engine *e) {
    using namespace chaiscript;
    try {
      throw;
    } catch (const exception::eval_error &ee) {
      return "eval_error|" + ee.reason;
    } catch (const exception::file_not_found_error &fe) {
      return "file_not_found_error|" + fe.filename;
    } catch (const exception::bad_boxed_cast &) {
      return "bad_boxed_cast|";
    } catch (const Boxed_Value &bv) {
      return "Boxed_Value|" + show(bv, e);
    } catch (const std::exception &ex) {
      return std::string(typeid(ex).name()) + "|" + ex.what();
    } catch (int i) {
      return "int|" + std::to_string(i);
    } catch (...) {
      return "unknown|";
    }
  }

  std::string eval_show(Engine &e, const std::string &script) {
    try {
      return "=" + show(e.eval(script), &e);
    } catch (...) {
      return "!" + describe_current_exception(&e);
    }
  }

  const std::string &run_dir() {
    static std::string dir;
    if (dir.empty()) {
      const char *base = getenv("VERIF_RUN_BASE");
      std::string b = base ? base : "/verif/build/run";
      mkdir(b.c_str(), 0777);
      dir = b + "/" + std::to_string(getpid());
      mkdir(dir.c_str(), 0777);
    }
    return dir;
  }

  bool &fatal_after_report() {
    static bool f = false;
    return f;
  }

  J gen_sched(Rng &rng, int n_actors, uint64_t est_decisions) {
    J s = J::object();
    if (n_actors <= 1) {
      s["mode"] = J("serial");
      return s;
    }
    const unsigned m = unsigned(rng.below(10));
    s["seed"] = J(static_cast<unsigned long long>(rng.next() >> 1));
    if (m < 6) {
      s["mode"] = J("random");
      static const unsigned ps[] = {20, 50, 100, 200, 350, 500};
      s["p"] = J(ps[rng.below(6)]);
      // site mask swarm: all sites, locks only, lock+op boundaries, everything but unlock
      static const unsigned masks[] = {0u, (1u << 1) | (1u << 2) | (1u << 3), (1u << 1) | (1u << 2) | (1u << 3) | (1u << 5) | (1u << 6), 0xffffu & ~(1u << 4)};
      s["mask"] = J(masks[rng.below(4)]);
    } else if (m < 9) {
      s["mode"] = J("pct");
      s["depth"] = J(static_cast<int>(rng.range(1, 4)));
      s["horizon"] = J(static_cast<unsigned long long>(est_decisions));
    } else {
      s["mode"] = J("serial");
    }
    return s;
  }

  ActorRun run_actors(const J &ps, int n, const std::function<void(int)> &body, RunResult &r) {
    ActorRun out;
    SimConfig cfg{};
    cfg.n_actors = n;
    cfg.step_cap = ps.has("cap") ? ps.at("cap").unum() : 3000000;
    cfg.trace_fd = -1;
    if (const char *tf = getenv("VERIF_TRACE_FD")) {
      cfg.trace_fd = atoi(tf);
    }
    std::vector<SimChoice> explicit_choices;
    const std::string mode = ps.at("mode").str();
    if (mode == "random") {
      cfg.mode = SIM_MODE_RANDOM;
      cfg.sched_seed = ps.at("seed").unum();
      cfg.switch_permille = uint32_t(ps.at("p").unum(100));
      cfg.site_mask = uint32_t(ps.at("mask").unum(0));
    } else if (mode == "pct") {
      cfg.mode = SIM_MODE_PCT;
      cfg.sched_seed = ps.at("seed").unum();
      cfg.pct_depth = int(ps.at("depth").num(2));
      cfg.pct_horizon = uint32_t(ps.at("horizon").unum(200));
    } else if (mode == "explicit") {
      cfg.mode = SIM_MODE_EXPLICIT;
      const J &ch = ps.at("choices");
      for (size_t i = 0; i < ch.size(); ++i) {
        explicit_choices.push_back(SimChoice{uint32_t(ch[i][0].unum()), uint32_t(ch[i][1].unum())});
      }
      cfg.explicit_choices = explicit_choices.data();
      cfg.n_explicit = uint32_t(explicit_choices.size());
    } else {
      cfg.mode = SIM_MODE_SERIAL;
    }
    sim_configure(&cfg);
    std::vector<std::thread> threads;
    threads.reserve(size_t(n));
    for (int i = 0; i < n; ++i) {
      threads.emplace_back([i, &body]() {
        sim_actor_begin(i);
        body(i);
        sim_actor_end();
      });
    }
    out.result = sim_run();
    out.stats = *sim_stats();
    if (out.result == SIM_OK) {
      for (auto &t : threads) {
        t.join();
      }
    } else {
      for (auto &t : threads) {
        t.detach();
      }
      fatal_after_report() = true;
      r.fail(out.result == SIM_DEADLOCK ? "deadlock" : "no-progress-within-step-cap",
             out.result == SIM_DEADLOCK ? "every unfinished actor is blocked on a mutex" : "step cap reached before all operations returned");
      r.event_hash = out.stats.event_hash;
      r.nontrivial = true;
      if (fatal_handler()) {
        fatal_handler()(r); // reports and _exit()s: the parked threads still use everything on our stack
      }
    }
    J rec = J::object();
    rec["mode"] = J("explicit");
    J &ch = rec["choices"];
    ch = J::array();
    const SimChoice *c = sim_choices();
    const uint32_t nc = out.stats.n_choices < SIM_MAX_CHOICES ? out.stats.n_choices : SIM_MAX_CHOICES;
    for (uint32_t i = 0; i < nc; ++i) {
      J pair = J::array();
      pair.push(J(c[i].decision));
      pair.push(J(c[i].choice));
      ch.push(std::move(pair));
    }
    if (ps.has("cap")) {
      rec["cap"] = ps.at("cap");
    }
    out.recorded = std::move(rec);
    r.counters["sched_steps"] += int64_t(out.stats.steps);
    r.counters["sched_decisions"] += int64_t(out.stats.decisions);
    r.counters["sched_switches"] += int64_t(out.stats.switches);
    r.counters["sched_blocked_on_mutex"] += int64_t(out.stats.blocked);
    static const char *site_names[] = {"", "site_lock_excl", "site_lock_shared", "site_lock_recursive", "site_unlock", "site_op_begin", "site_op_end", "site_callback", "site_file", "site_blocked", "site_hint"};
    for (int k = 1; k <= 10; ++k) {
      r.counters[site_names[k]] += int64_t(out.stats.site_count[k]);
    }
    r.counters[std::string("mode_") + mode] += 1;
    return out;
  }

  // ------------------------------------------------------------ linearizability
  namespace {
    struct LinSearch {
      const std::vector<LinOp> &ops;
      std::map<std::pair<uint64_t, int64_t>, bool> dead; // (done mask, state) known not to lead to success
      explicit LinSearch(const std::vector<LinOp> &o) : ops(o) {}
      bool go(uint64_t done, int64_t state) {
        const size_t n = ops.size();
        if (done == ((n == 64) ? ~0ULL : ((1ULL << n) - 1))) {
          return true;
        }
        auto key = std::make_pair(done, state);
        if (dead.count(key)) {
          return false;
        }
        // minimal return stamp among pending ops: an op may be linearized next only if it was
        // invoked before every pending op returned
        uint64_t min_ret = ~0ULL;
        for (size_t i = 0; i < n; ++i) {
          if (!(done & (1ULL << i)) && ops[i].ret < min_ret) {
            min_ret = ops[i].ret;
          }
        }
        for (size_t i = 0; i < n; ++i) {
          if (done & (1ULL << i)) {
            continue;
          }
          const LinOp &op = ops[i];
          if (op.inv > min_ret) {
            continue; // some pending op returned strictly before this one was invoked
          }
          int64_t ns = state;
          bool fits = false;
          switch (op.kind) {
          case LinOp::Add:
            if (state == -1) {
              fits = op.ok;
              ns = op.value;
            } else {
              fits = !op.ok;
            }
            break;
          case LinOp::Set:
            fits = true;
            ns = op.value;
            break;
          case LinOp::Read:
            fits = (op.value == state);
            break;
          }
          if (fits && go(done | (1ULL << i), ns)) {
            return true;
          }
        }
        dead[key] = true;
        return false;
      }
    };
  } // namespace

  bool linearizable(const std::vector<LinOp> &ops) {
    if (ops.size() > 63) {
      return true; // never generated; refuse to judge rather than guess
    }
    LinSearch s(ops);
    return s.go(0, -1);
  }

} // namespace verif
