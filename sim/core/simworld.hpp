// Helpers shared by all worlds: engine construction, value/exception rendering, running actor
// threads under the deterministic scheduler.  Includes ChaiScript (chaiscript_basic.hpp).
#ifndef VERIF_SIMWORLD_HPP_
#define VERIF_SIMWORLD_HPP_

#include "common.hpp"
#include "simsched.h"

#include <chaiscript/chaiscript_basic.hpp>

#include <functional>

namespace verif {

  using chaiscript::Boxed_Value;
  using Engine = chaiscript::ChaiScript_Basic;

  // fresh engine with the real stdlib + real (optimizing) parser
  std::unique_ptr<Engine> make_engine(std::vector<std::string> use_paths = {});
  // placement-construct an engine at `where` (C14); destroy with ->~ChaiScript_Basic()
  Engine *make_engine_at(void *where, std::vector<std::string> use_paths = {});
  size_t engine_size();
  // the standard-library module as an embedder gets it (to extend before building an engine from it)
  chaiscript::ModulePtr make_stdlib_module();
  Engine *make_engine_from_module_at(void *where_or_null, const chaiscript::ModulePtr &lib, std::vector<std::string> use_paths = {});

  // warm every function-local static ChaiScript owns (call once from main before any actor exists)
  void warm_up();

  // canonical, pointer-free rendering of a script value ("i:5", "s:abc", "[i:1,i:2]", "void", ...)
  std::string show(const Boxed_Value &bv, Engine *e = nullptr, int depth = 0);

  // call inside catch(...): canonical rendering of the in-flight exception: "<class>|<payload>"
  std::string describe_current_exception(Engine *e = nullptr);

  // eval and render: "=<value>" or "!<exception>"
  std::string eval_show(Engine &e, const std::string &script);

  // per-process scratch directory (created on first use): /verif/build/run/<pid>
  const std::string &run_dir();

  // true once a run ended in DEADLOCK / STEPCAP: actor threads are parked for ever, the process
  // must report and _exit.
  bool &fatal_after_report();

  // ---- scheduling
  // draw a schedule spec for n actors from rng (swarm: mode, switch probability, site mask, pct depth)
  J gen_sched(Rng &rng, int n_actors, uint64_t est_decisions = 200);

  struct ActorRun {
    int result = SIM_OK;
    SimStats stats{};
    J recorded; // explicit schedule equivalent to what just ran
  };

  // Runs body(actor_id) on n real threads, one at a time, interleaved as plan_sched says.
  // body must not let exceptions escape.  Folds scheduler stats into r.counters, sets r.fail on
  // deadlock / step cap.
  ActorRun run_actors(const J &plan_sched, int n, const std::function<void(int)> &body, RunResult &r);

  // operation bracket: yields at begin and end, returns the invoke stamp
  struct OpScope {
    uint64_t inv;
    OpScope() {
      sim_yield(5, nullptr);
      inv = sim_step();
    }
    uint64_t ret_stamp() const { return sim_step(); }
    ~OpScope() { sim_yield(6, nullptr); }
  };

  // ---- a small linearizability checker for write-once / register keys (Wing & Gong DFS)
  struct LinOp {
    enum Kind { Add, Set, Read } kind;
    int64_t value;   // Add/Set: value written; Read: value observed (or -1 = not found)
    bool ok;         // Add: true = succeeded, false = reported conflict
    uint64_t inv, ret;
  };
  // initial state: absent (-1).  Returns true iff some linearization explains all results.
  bool linearizable(const std::vector<LinOp> &ops);

} // namespace verif

#endif
