// Loadable extension modules for world C15 ("active modules" of the engine state).
//   c15mod     : a function, a type name and a global constant; no conversions
//   c15modconv : the same plus a base-class conversion (only used by the known-finding replay C15-K1)
#include <chaiscript/chaiscript_basic.hpp>

namespace {
  struct ModThing {
    int v = 1;
  };
  struct ModBase {
    virtual ~ModBase() = default;
    int v = 2;
  };
  struct ModDerived : ModBase {};
} // namespace

extern "C" {
chaiscript::ModulePtr create_chaiscript_module_c15mod() {
  auto m = std::make_shared<chaiscript::Module>();
  m->add(chaiscript::fun([]() { return 31337; }), "mod_fn");
  m->add(chaiscript::user_type<ModThing>(), "ModThing");
  m->add(chaiscript::constructor<ModThing()>(), "ModThing");
  m->add_global_const(chaiscript::const_var(31338), "mod_const");
  return m;
}

chaiscript::ModulePtr create_chaiscript_module_c15modconv() {
  auto m = std::make_shared<chaiscript::Module>();
  m->add(chaiscript::fun([]() { return 41337; }), "modconv_fn");
  m->add(chaiscript::user_type<ModBase>(), "ModBase");
  m->add(chaiscript::user_type<ModDerived>(), "ModDerived");
  m->add(chaiscript::base_class<ModBase, ModDerived>());
  m->add_global_const(chaiscript::const_var(41338), "modconv_const");
  return m;
}
}
